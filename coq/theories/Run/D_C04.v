(* Dispatch fragment for C04 / C05: the sharded writer model, the package
   reader model, the independent specification reader, WF and the guard.

   gzip is an oracle: requests carry a table  ((input output) ...)  built by the
   harness with the real zlib (output is a byte string, or the atom err when
   zlib raised).  When the model needs an answer the table does not contain,
   the reply is  (miss (input ...))  and the harness retries with a larger
   table.  With "raw" encodings the table is unused. *)
From Coq Require Import NArith ZArith List Bool String.
From NGS Require Import Val Ints Morton ShardBytes MiniShard ShardFile ShardReader ShardSpecReader ShardSession.
Import ListNotations.
Open Scope string_scope.

(* ---------- argument decoding ---------- *)
Definition gz_table := list (bytes * option bytes).

Definition get_table (v : val) : option gz_table :=
  match v with
  | VL l =>
      all_some (map (fun e => match e with
                              | VL [VS i; VS o] => Some (i, Some o)
                              | VL [VS i; VT _] => Some (i, None)
                              | _ => None end) l)
  | _ => None
  end.

Record cfg := { c_sp : sparams; c_igz : bool; c_dgz : bool }.

Definition get_cfg (v : val) : option cfg :=
  match v with
  | VL [m; s; p; ig; dg] =>
      match getN m, getN s, getN p, getB ig, getB dg with
      | Some m, Some s, Some p, Some ig, Some dg =>
          Some {| c_sp := {| sp_m := m; sp_s := s; sp_p := p |}; c_igz := ig; c_dgz := dg |}
      | _, _, _, _, _ => None
      end
  | _ => None
  end.

Definition get_files (v : val) : option (list (bytes * bytes)) :=
  match v with
  | VL l => all_some (map (fun e => match e with VL [VS n; VS b] => Some (n, b) | _ => None end) l)
  | _ => None
  end.

Definition get_ops (v : val) : option (list store_op) :=
  match v with
  | VL l => all_some (map (fun e => match e with
                                    | VL [VZ x; VZ y; VZ z; VS b] => Some (x, y, z, b)
                                    | _ => None end) l)
  | _ => None
  end.

Definition get_cmc_ops (v : val) : option (list (N * bytes)) :=
  match v with
  | VL l => all_some (map (fun e => match e with
                                    | VL [c; VS b] => match getN c with Some c => Some (c, b) | None => None end
                                    | _ => None end) l)
  | _ => None
  end.

(* ---------- oracle plumbing ---------- *)
Definition known (t : gz_table) (b : bytes) : bool :=
  match blookup b t with Some _ => true | None => false end.
Definition missing (t : gz_table) (l : list bytes) : list bytes :=
  filter (fun b => negb (known t b)) l.
Definition v_miss (l : list bytes) : val := VL [VT "miss"; VL (map VS l)].

Definition enc_of (gz : bool) (t : gz_table) : bytes -> bytes :=
  if gz then fun b => match blookup b t with Some (Some o) => o | _ => [] end
  else fun b => b.
Definition dec_of (gz : bool) (t : gz_table) : bytes -> outcome bytes :=
  if gz then fun b => match blookup b t with
                      | Some (Some o) => Ok o
                      | Some None => Crash ZlibError
                      | None => Crash NotImplementedError end      (* never: misses are reported first *)
  else fun b => Ok b.
Definition sdec_of (gz : bool) (t : gz_table) : bytes -> option bytes :=
  if gz then fun b => match blookup b t with Some (Some o) => Some o | _ => None end
  else fun b => Some b.

(* ---------- replies ---------- *)
Definition v_unit_outcomes (l : list (outcome unit)) : val :=
  VL (map (v_outcome (fun _ => VT "none")) l).
Definition v_file (e : bytes * outcome (option bytes)) : val :=
  VL [VS (fst e); v_outcome (fun o => match o with Some b => VS b | None => VT "nofile" end) (snd e)].

(* raw (unencoded) minishard indices of a closed scale: inputs of index_encoder *)
Definition index_raws (sp : sparams) (denc : bytes -> bytes) (st : scale) : list bytes :=
  flat_map (fun '(_, sh) =>
    match close_minis sp (sort_by_key (sh_minis sh)) [] with
    | Ok (minis, _) =>
        flat_map (fun km => match index_bytes (ms_hdr (snd km)) with Ok b => [b] | _ => [] end) minis
    | _ => []
    end) st.

Definition finish_run (c : cfg) (t : gz_table) (payloads : list bytes)
           (go : (bytes -> bytes) -> (bytes -> bytes) -> scale * list (outcome unit)) : val :=
  let m1 := if c_dgz c then missing t payloads else [] in
  match m1 with
  | _ :: _ => v_miss m1
  | [] =>
      let denc := enc_of (c_dgz c) t in
      let '(st0, _) := go denc (fun b => b) in
      let m2 := if c_igz c then missing t (index_raws (c_sp c) denc st0) else [] in
      match m2 with
      | _ :: _ => v_miss m2
      | [] =>
          let ienc := enc_of (c_igz c) t in
          let '(st, os) := go denc ienc in
          VL [VT "ok"; v_unit_outcomes os;
              VL (map v_file (scale_close (c_sp c) ienc st))]
      end
  end.

(* slot inputs of the index decoder, as the package reader computes them *)
Definition pkg_index_raws (sp : sparams) (s : src) : list bytes :=
  match bind (read_bytes sp s 0 (hl sp)) frombuffer64 with
  | Ok ws =>
      flat_map (fun '(o, e) =>
        if sub64 e o =? 0 then [] else
        match read_bytes sp s (add64 o (hl sp)) (sub64 e o) with Ok raw => [raw] | _ => [] end)%N
        (pairs_of ws)
  | _ => []
  end.

(* one Shard object per shard key: its index-decoder inputs and its parsed dict *)
Record opened := { o_src : src; o_raws : list bytes; o_dict : outcome (list (N * list N)) }.

Definition open_shard (c : cfg) (t : gz_table) (s : src) : opened :=
  {| o_src := s; o_raws := pkg_index_raws (c_sp c) s;
     o_dict := populate (c_sp c) (dec_of (c_igz c) t) s |}.

Definition pkg_fetch_one (c : cfg) (t : gz_table) (o : opened) (id : N) : val :=
  let m1 := if c_igz c then missing t (o_raws o) else [] in
  match m1 with
  | _ :: _ => v_miss m1
  | [] =>
      let r := bind (o_dict o) (fun d => fetch_with (c_sp c) (o_src o) d id) in
      match r with
      | Ok raw =>
          if c_dgz c && negb (known t raw) then v_miss [raw]
          else v_outcome VS (bind r (dec_of (c_dgz c) t))
      | _ => v_outcome VS r
      end
  end.

(* slot input of the index decoder, as the specification reader computes it *)
Definition spec_slot_raw (m : N) (f : bytes) (k : N) : list bytes :=
  match u64_at f (16 * k), u64_at f (16 * k + 8) with
  | Some a, Some b =>
      if (a =? b)%N then [] else
      match sub_range f (shard_index_len m + a) (shard_index_len m + b) with
      | Some raw => [raw] | None => [] end
  | _, _ => []
  end.

Definition v_spec_result (r : spec_result) : val :=
  match r with
  | SFound b => VL [VT "found"; VS b]
  | SAbsent => VT "absent"
  | SMalformed => VT "malformed"
  end.

Definition spec_fetch_one (c : cfg) (t : gz_table) (files : list (bytes * bytes)) (id : N) : val :=
  let sp := c_sp c in
  let m := sp_m sp in let s := sp_s sp in let p := sp_p sp in
  let f := match blookup (spec_file_name s (spec_shard p m s id)) files with Some f => f | None => [] end in
  let m1 := if c_igz c then missing t (spec_slot_raw m f (spec_minishard p m id)) else [] in
  match m1 with
  | _ :: _ => v_miss m1
  | [] =>
      let idec := sdec_of (c_igz c) t in
      match spec_fetch m s p idec (fun b => Some b) files id with
      | SFound raw =>
          if c_dgz c && negb (known t raw) then v_miss [raw]
          else v_spec_result (spec_fetch m s p idec (sdec_of (c_dgz c) t) files id)
      | r => v_spec_result r
      end
  end.

Definition wf_one (c : cfg) (t : gz_table) (e : bytes * bytes) : val :=
  let sp := c_sp c in
  let m := sp_m sp in
  let '(name, f) := e in
  let raws := flat_map (spec_slot_raw m f) (nseq 0 (N.to_nat (2 ^ m))) in
  let m1 := if c_igz c then missing t raws else [] in
  match m1 with
  | _ :: _ => v_miss m1
  | [] =>
      let r := wf_file m (sp_s sp) (sp_p sp) (sdec_of (c_igz c) t) name f in
      VL [VS name; vbool (wf_parse r); vbool (wf_slot r); vbool (wf_disjoint r)]
  end.

Definition v_mini (st : mini) : val :=
  VL [vN (ms_app st); vN (ms_last st); vNs (ms_hdr st); VS (ms_data st);
      vNs (akeys (ms_pend st));
      match ms_mask st with Some x => vN x | None => VT "none" end].

(* ---------- accessor-level sessions (several scales, repeated close) ---------- *)
(* ((key chunk_sizes sizes) ...) or ((key chunk_sizes sizes m s p) ...): the
   scales of the info file; without m s p the request's common triple applies *)
Definition scale_desc := (N * (list Z * list Z * option sparams))%type.

Definition get_scales (v : val) : option (list scale_desc) :=
  match v with
  | VL l => all_some (map (fun e => match e with
                                    | VL [k; cs; sz] =>
                                        match getN k, getZs cs, getZs sz with
                                        | Some k, Some cs, Some sz => Some (k, (cs, sz, None))
                                        | _, _, _ => None end
                                    | VL [k; cs; sz; m; s; p] =>
                                        match getN k, getZs cs, getZs sz, getN m, getN s, getN p with
                                        | Some k, Some cs, Some sz, Some m, Some s, Some p =>
                                            Some (k, (cs, sz, Some {| sp_m := m; sp_s := s; sp_p := p |}))
                                        | _, _, _, _, _, _ => None end
                                    | _ => None end) l)
  | _ => None
  end.

Definition cfg_of (sp : sparams) (scales : list scale_desc) (k : N) : option (vspec * sparams) :=
  match alookup k scales with
  | Some (cs, sz, osp) =>
      match mk_vspec cs sz with
      | Ok v => Some (v, match osp with Some sp' => sp' | None => sp end)
      | _ => None end
  | None => None
  end.

(* session steps: (s key x y z payload) | c | (i (scales...)) *)
Definition get_iops (sp : sparams) (v : val) : option (list iop) :=
  match v with
  | VL l => all_some (map (fun e => match e with
                                    | VL [VT _; k; VZ x; VZ y; VZ z; VS b] =>
                                        match getN k with Some k => Some (IOp (SStore k x y z b)) | None => None end
                                    | VL [VT _; sc] =>
                                        match get_scales sc with Some sc => Some (IInfo (cfg_of sp sc)) | None => None end
                                    | VT _ => Some (IOp SClose)
                                    | _ => None end) l)
  | _ => None
  end.

Definition v_sout (o : sout) : val :=
  match o with
  | SOut o => v_outcome (fun _ => VT "none") o
  | SAttrErr => VL [VT "Crash"; VT "AttributeError"]
  end.

(* inputs of the index encoder: the (offset-patched) headers of all minishards *)
Definition sess_index_raws (st : sess) : list bytes :=
  flat_map (fun kw => flat_map (fun ksh => flat_map (fun km =>
     match index_bytes (ms_hdr (snd km)) with Ok b => [b] | _ => [] end) (sh_minis (snd ksh)))
     (ws_scale (snd kw))) (se_scales st).

Definition iop_payloads (ops : list iop) : list bytes :=
  flat_map (fun o => match o with IOp (SStore _ _ _ _ b) => [b] | _ => [] end) ops.

Definition run_sess (c : cfg) (t : gz_table) (scales : list scale_desc) (ops : list iop) : val :=
  let m1 := if c_dgz c then missing t (iop_payloads ops) else [] in
  match m1 with
  | _ :: _ => v_miss m1
  | [] =>
      let denc := enc_of (c_dgz c) t in
      let '(st0, _) := isess_run denc (fun b => b) (cfg_of (c_sp c) scales) sess_init ops in
      let m2 := if c_igz c then missing t (sess_index_raws st0) else [] in
      match m2 with
      | _ :: _ => v_miss m2
      | [] =>
          let '(st, os) := isess_run denc (enc_of (c_igz c) t) (cfg_of (c_sp c) scales) sess_init ops in
          VL [VT "ok"; VL (map v_sout os);
              VL (map (fun kd => VL [vN (fst kd); VL (map (fun nb => VL [VS (fst nb); VS (snd nb)]) (snd kd))])
                      (se_fs st))]
      end
  end.

Definition d_c04 (op : string) (a : val) : option val :=
  match op, a with
  | "c04_run", VL [cs; sz; cf; tb; ops] =>
      match getZs cs, getZs sz, get_cfg cf, get_table tb, get_ops ops with
      | Some cs, Some sz, Some c, Some t, Some ops =>
          match mk_vspec cs sz with
          | Ok v =>
              Some (finish_run c t (map (fun o => snd o) ops)
                      (fun denc ienc => run_stores (c_sp c) denc v [] ops))
          | _ =>   (* get_volume_shard_spec wraps every failure in ShardedIOError *)
              Some (VL [VT "ok"; v_unit_outcomes (map (fun _ => IOErr) ops); VL []])
          end
      | _, _, _, _, _ => Some bad end
  | "c04_cmc_run", VL [cf; tb; ops] =>
      match get_cfg cf, get_table tb, get_cmc_ops ops with
      | Some c, Some t, Some ops =>
          Some (finish_run c t (map (fun o => snd o) ops)
                  (fun denc ienc => run_cmc_stores (c_sp c) denc [] ops))
      | _, _, _ => Some bad end
  | "c04_mini_run", VL [cf; tb; ops; do_close] =>
      match get_cfg cf, get_table tb, get_cmc_ops ops, getB do_close with
      | Some c, Some t, Some ops, Some dc =>
          let m1 := if c_dgz c then missing t (map (fun o => snd o) ops) else [] in
          match m1 with
          | _ :: _ => Some (v_miss m1)
          | [] =>
              let '(st, os) := ms_run (c_sp c) (enc_of (c_dgz c) t) ms_init ops in
              if dc then
                let '(st', r) := ms_close (c_sp c) st in
                Some (VL [VT "ok"; v_unit_outcomes os; v_outcome (fun _ => VT "none") r; v_mini st'])
              else Some (VL [VT "ok"; v_unit_outcomes os; VT "open"; v_mini st])
          end
      | _, _, _, _ => Some bad end
  | "c04_next_cmc", VL [m; s; p; mb; app] =>
      match getN m, getN s, getN p, getN mb, getN app with
      | Some m, Some s, Some p, Some mb, Some app =>
          let sp := {| sp_m := m; sp_s := s; sp_p := p |} in
          Some (VL [vN (next_cmc sp mb app); vN (masked_of sp mb); vN (rank sp mb)])
      | _, _, _, _, _ => Some bad end
  | "c04_pkg_fetch", VL [cf; tb; files; ids] =>
      match get_cfg cf, get_table tb, get_files files, getNs ids with
      | Some c, Some t, Some files, Some ids =>
          let sp := c_sp c in
          let key := shard_key_model (sp_p sp) (sp_m sp) (sp_s sp) in
          let cache := map (fun k => (k, open_shard c t (dir_of (sp_s sp) files k)))
                           (sort_set (map key ids)) in
          Some (VL (map (fun id =>
                  match alookup (key id) cache with
                  | Some o => pkg_fetch_one c t o id
                  | None => bad end) ids))
      | _, _, _, _ => Some bad end
  | "c04_spec_fetch", VL [cf; tb; files; ids] =>
      match get_cfg cf, get_table tb, get_files files, getNs ids with
      | Some c, Some t, Some files, Some ids => Some (VL (map (spec_fetch_one c t files) ids))
      | _, _, _, _ => Some bad end
  | "c04_wf", VL [cf; tb; files] =>
      match get_cfg cf, get_table tb, get_files files with
      | Some c, Some t, Some files => Some (VL (map (wf_one c t) files))
      | _, _, _ => Some bad end
  | "c04_session", VL [cf; tb; scales; ops] =>
      match get_cfg cf, get_table tb, get_scales scales with
      | Some c, Some t, Some scales =>
          match get_iops (c_sp c) ops with
          | Some ops => Some (run_sess c t scales ops)
          | None => Some bad end
      | _, _, _ => Some bad end
  | "c04_guard", VL [m; s; p; ids] =>
      match getN m, getN s, getN p, getNs ids with
      | Some m, Some s, Some p, Some ids =>
          Some (VL [vbool (used_minishards_prefix m s p ids);
                    VL (map (fun sh => VL [vN sh; vbool (shard_prefix_ok m s p ids sh);
                                           vNs (used_minishards m s p sh ids)])
                            (sort_set (map (spec_shard p m s) ids)))])
      | _, _, _, _ => Some bad end
  | _, _ => None
  end.
