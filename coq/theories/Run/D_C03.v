(* Dispatch fragment for C03. *)
From Coq Require Import NArith ZArith List String.
From NGS Require Import Val Ints PioModel.
Import ListNotations.
Open Scope string_scope.

Definition get_triple (v : val) : option triple :=
  match getZs v with Some [a; b; c] => Some (a, b, c) | _ => None end.
Definition get_coords (v : val) : option coords :=
  match getZs v with Some [a; b; c; d; e; f] => Some (a, b, c, d, e, f) | _ => None end.

(* scale: ( key size (chunk_sizes...) voxel_offset|none ) *)
Definition get_scale (v : val) : option scale :=
  match v with
  | VL [VS key; sz; VL css; vo] =>
      match get_triple sz, all_some (map get_triple css) with
      | Some sz, Some css =>
          let mk o := Some {| sc_key := key; sc_size := sz; sc_chunk_sizes := css; sc_voxel_offset := o |} in
          match vo with
          | VT _ => mk None
          | _ => match get_triple vo with Some t => mk (Some t) | None => None end
          end
      | _, _ => None end
  | _ => None
  end.

Definition tok_encode (_ : list N) (z : Z) : outcome Z := Ok z.
Definition tok_decode (_ : list N) (z : Z) (_ : triple) : outcome Z := Ok z.

Definition get_op (v : val) : option (op Z) :=
  match v with
  | VL [VT "w"; VZ tok; VS k; c] => match get_coords c with Some c => Some (Write Z tok k c) | None => None end
  | VL [VT "r"; VS k; c] => match get_coords c with Some c => Some (Read Z k c) | None => None end
  | _ => None
  end.

Definition v_read (o : outcome (option Z)) : val :=
  v_outcome (fun x => match x with Some z => VZ z | None => VT "stored" end) o.

Definition v_enc (k : enc_kind) : val :=
  match k with
  | EncRaw => VT "raw" | EncJpeg => VT "jpeg"
  | EncCSeg a b c => VL [VT "cseg"; VZ a; VZ b; VZ c]
  end.

Definition d_c03 (op : string) (a : val) : option val :=
  match op, a with
  | "validate", VL [sc; c] =>
      match get_scale sc, get_coords c with
      | Some s, Some c => Some (v_outcome vbool (validate s c))
      | _, _ => Some bad end
  | "get_encoder", VL [hd; hn; he; VZ dt; nc; VZ enc; blk] =>
      match getB hd, getB hn, getB he with
      | Some hd, Some hn, Some he =>
          let nc' := match nc with VZ n => Some n | _ => None end in
          let blk' := get_triple blk in
          Some (v_outcome v_enc (get_encoder hd hn he dt nc' enc blk'))
      | _, _, _ => Some bad end
  | "pio_run", VL [VL scs; VL ops] =>
      match all_some (map get_scale scs), all_some (map get_op ops) with
      | Some scs, Some ops =>
          let '(st, outs) := run Z Z tok_encode tok_decode scs [] ops in
          Some (VL (map v_read outs))
      | _, _ => Some bad end
  | _, _ => None
  end.
