(* Dispatch fragment for C03. *)
From Coq Require Import NArith ZArith List String.
From NGS Require Import Val Ints PioModel PioHandles.
Import ListNotations.
Open Scope string_scope.

Definition get_triple (v : val) : option triple :=
  match getZs v with Some [a; b; c] => Some (a, b, c) | _ => None end.
Definition get_coords (v : val) : option coords :=
  match getZs v with Some [a; b; c; d; e; f] => Some (a, b, c, d, e, f) | _ => None end.

(* scale: ( key size (chunk_sizes...) voxel_offset|none ) *)
Definition get_scale (v : val) : option scale :=
  match v with
  | VL [VS key; sz; VL css; vo] =>
      match get_triple sz, all_some (map get_triple css) with
      | Some sz, Some css =>
          let mk o := Some {| sc_key := key; sc_size := sz; sc_chunk_sizes := css; sc_voxel_offset := o |} in
          match vo with
          | VT _ => mk None
          | _ => match get_triple vo with Some t => mk (Some t) | None => None end
          end
      | _, _ => None end
  | _ => None
  end.

Definition tok_encode (_ : list N) (z : Z) : outcome Z := Ok z.
Definition tok_decode (_ : list N) (z : Z) (_ : triple) : outcome Z := Ok z.

Definition get_op (v : val) : option (op Z) :=
  match v with
  | VL [VT "w"; VZ tok; VS k; c] => match get_coords c with Some c => Some (Write Z tok k c) | None => None end
  | VL [VT "r"; VS k; c] => match get_coords c with Some c => Some (Read Z k c) | None => None end
  | _ => None
  end.

Definition v_read (o : outcome (option Z)) : val :=
  v_outcome (fun x => match x with Some z => VZ z | None => VT "stored" end) o.

Definition v_enc (k : enc_kind) : val :=
  match k with
  | EncRaw => VT "raw" | EncJpeg => VT "jpeg"
  | EncCSeg a b c => VL [VT "cseg"; VZ a; VZ b; VZ c]
  end.

(* ---- several handles on one dataset (PioHandles) ----
   info on the wire: ( id data_type_index num_channels|notint ( (scale encoding_index block|none) ... ) );
   a chunk is a token; stored bytes remember the id of the info they were encoded under *)
Record winfo := { wi_id : Z; wi_dt : Z; wi_nc : option Z; wi_sc : list (scale * Z * option triple) }.

Definition get_winfo (v : val) : option winfo :=
  match v with
  | VL [VZ id; VZ dt; nc; VL scs] =>
      let one (x : val) :=
        match x with
        | VL [sc; VZ enc; blk] =>
            match get_scale sc with Some s => Some (s, enc, get_triple blk) | None => None end
        | _ => None
        end in
      match all_some (map one scs) with
      | Some l => Some {| wi_id := id; wi_dt := dt; wi_nc := match nc with VZ n => Some n | _ => None end;
                          wi_sc := l |}
      | None => None
      end
  | _ => None
  end.

Definition wi_scales (i : winfo) : list scale := map (fun x => fst (fst x)) (wi_sc i).
Fixpoint wi_check_l (i : winfo) (l : list (scale * Z * option triple)) : outcome unit :=
  match l with
  | [] => Ok tt
  | (_, enc, blk) :: r =>
      bind (get_encoder true true true (wi_dt i) (wi_nc i) enc blk) (fun _ => wi_check_l i r)
  end.
Definition wi_check (i : winfo) : outcome unit := wi_check_l i (wi_sc i).
Definition wi_encode (i : winfo) (_ : list N) (tok : Z) : outcome (Z * Z) := Ok (wi_id i, tok).
Definition wi_decode (i : winfo) (_ : list N) (b : Z * Z) (_ : triple) : outcome Z :=
  if Z.eqb (fst b) (wi_id i) then Ok (snd b) else FormatErr.

Definition get_hop (infos : list winfo) (v : val) : option (hop winfo Z) :=
  match v with
  | VL [VT "new"; VZ n; ow] =>
      match nth_error infos (Z.to_nat n), getB ow with
      | Some i, Some ow => Some (HNew winfo Z i ow)
      | _, _ => None end
  | VL [VT "open"] => Some (HOpen winfo Z)
  | VL [VT "w"; VZ h; VZ tok; VS k; c] =>
      match get_coords c with Some c => Some (HWrite winfo Z (Z.to_nat h) tok k c) | None => None end
  | VL [VT "r"; VZ h; VS k; c] =>
      match get_coords c with Some c => Some (HRead winfo Z (Z.to_nat h) k c) | None => None end
  | _ => None
  end.

Definition d_c03 (op : string) (a : val) : option val :=
  match op, a with
  | "validate", VL [sc; c] =>
      match get_scale sc, get_coords c with
      | Some s, Some c => Some (v_outcome vbool (validate s c))
      | _, _ => Some bad end
  | "get_encoder", VL [hd; hn; he; VZ dt; nc; VZ enc; blk] =>
      match getB hd, getB hn, getB he with
      | Some hd, Some hn, Some he =>
          let nc' := match nc with VZ n => Some n | _ => None end in
          let blk' := get_triple blk in
          Some (v_outcome v_enc (get_encoder hd hn he dt nc' enc blk'))
      | _, _, _ => Some bad end
  | "pio_run", VL [VL scs; VL ops] =>
      match all_some (map get_scale scs), all_some (map get_op ops) with
      | Some scs, Some ops =>
          let '(st, outs) := run Z Z tok_encode tok_decode scs [] ops in
          Some (VL (map v_read outs))
      | _, _ => Some bad end
  | "pio_handles", VL [VL infos; VL ops] =>
      match all_some (map get_winfo infos) with
      | Some infos =>
          match all_some (map (get_hop infos) ops) with
          | Some ops =>
              let '(st, outs) := hrun winfo Z (Z * Z) wi_scales wi_check wi_encode wi_decode
                                      (h_empty winfo (Z * Z)) ops in
              Some (VL [VL (map v_read outs);
                        match h_info st with Some i => VZ (wi_id i) | None => VT "none" end;
                        VZ (Z.of_nat (List.length (h_handles st)))])
          | None => Some bad end
      | None => Some bad end
  | _, _ => None
  end.
