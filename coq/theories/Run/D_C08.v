(* Dispatch fragment for C08 (generated scale metadata) and C06 (pyramid
   tiling): op name + argument value -> reply. *)
From Coq Require Import NArith ZArith List String.
From Coq Require Import Floats.SpecFloat.
From NGS Require Import Val Ints PyrScales PyrKeys PyrTiling PyrCompute.
Import ListNotations.
Open Scope string_scope.

Definition get_t3 (v : val) : option t3 :=
  match v with VL [VZ x; VZ y; VZ z] => Some (x, y, z) | _ => None end.
Definition v_t3 (v : t3) : val := vZs (list3 v).

Definition get_fl (v : val) : option fl :=
  match v with VL [VZ (Zpos m); VZ e] => Some (m, e) | _ => None end.
Definition get_fl3 (v : val) : option (fl * fl * fl) :=
  match v with
  | VL [a; b; c] =>
      match get_fl a, get_fl b, get_fl c with
      | Some a, Some b, Some c => Some (a, b, c) | _, _, _ => None end
  | _ => None end.
Definition v_sf (x : spec_float) : val :=
  match x with
  | S754_finite false m e => VL [VZ (Zpos m); VZ e]
  | S754_zero _ => VL [VZ 0; VZ 0]
  | _ => VT "nonfinite"
  end.
Definition v_f3 (r : f3) : val := let '(x, y, z) := r in VL [v_sf x; v_sf y; v_sf z].

Definition v_scale (s : scale_out) : val :=
  VL [VS (so_key s); v_t3 (so_size s); v_f3 (so_res s); v_t3 (so_chunks s)].
Definition v_core (s : scale_core) : val :=
  VL [VZ (sc_level s); v_t3 (sc_factors s); v_t3 (sc_size s); v_t3 (sc_chunk_exp s)].

Definition get_method (v : val) : option (t3 -> arr -> arr) :=
  match v with
  | VT m => if String.eqb m "stride" then Some ds_stride
            else if String.eqb m "average" then Some ds_avg
            else if String.eqb m "majority" then Some ds_majority else None
  | _ => None end.

Definition v_cell (c : cell) : val := match c with Val v => VZ v | Uninit => VT "U" end.
Definition v_chunk (c : t3 * t3 * buffer) : val :=
  let '(lo, hi, b) := c in VL [v_t3 lo; v_t3 hi; VL (map v_cell (cells_of_buffer b))].
Definition v_arr (a : arr) : val := VL [VZ (a_c a); v_t3 (a_sh a); vZs (list_of_arr a)].

Definition get_opt_bytes (v : val) : option (option (list N)) :=
  match v with
  | VS [] => Some None          (* absent key / empty or missing option *)
  | VS b => Some (Some b)
  | _ => None end.

Definition get_scale_geo (v : val) : option scale_geo :=
  match v with
  | VL [s; c] => match get_t3 s, get_t3 c with
                 | Some s, Some c => Some {| sg_size := s; sg_chunk := c |}
                 | _, _ => None end
  | _ => None end.

Definition bad_args : val := bad.
Definition get_failure (v : val) : option (t3 * outcome arr) :=
  match v with
  | VL [lo; VT k] =>
      match get_t3 lo with
      | Some lo => if String.eqb k "AccessErr" then Some (lo, AccessErr)
                   else if String.eqb k "FormatErr" then Some (lo, FormatErr) else None
      | None => None end
  | _ => None end.

Definition mk_geom (os ns oc nc : t3) (ch : Z) : geom :=
  {| g_os := os; g_ns := ns; g_oc := oc; g_nc := nc; g_ch := ch |}.

Definition d_c08 (op : string) (a : val) : option val :=
  match op, a with
  | "gen_scales", VL [sz; res; VZ target; VZ ms] =>
      match get_t3 sz, get_fl3 res with
      | Some sz, Some res =>
          Some (v_outcome (fun l => VL (map v_scale l)) (gen_scales sz res target ms))
      | _, _ => Some bad end
  | "keys_guard", VL [sz; res; VZ target; VZ ms] =>
      match get_t3 sz, get_fl3 res with
      | Some sz, Some res => Some (vbool (keys_guard sz res target ms))
      | _, _ => Some bad end
  | "gen_delays", VL [res] =>
      match get_fl3 res with
      | Some res => Some (v_outcome v_t3 (gen_delays res))
      | None => Some bad end
  | "scales_core", VL [sz; d; VZ t; VZ ms] =>
      match get_t3 sz, get_t3 d with
      | Some sz, Some d =>
          Some (VL [v_outcome (fun l => VL (map v_core l)) (scales_core sz d t ms);
                    VZ (level_count sz d t ms);
                    vbool (last_fits_guard sz d t ms)])
      | _, _ => Some bad end
  | "choose_unit", VL [r] =>
      match get_fl r with
      | Some r => Some (v_outcome (fun u => VS (fst u)) (choose_unit_for_key (sf_of r)))
      | None => Some bad end
  | "format_length", VL [r; VZ i] =>
      match get_fl r, nth_error units (Z.to_nat i) with
      | Some r, Some u => Some (v_outcome VS (format_length (sf_of r) u))
      | _, _ => Some bad end
  | "units", VL [] =>
      Some (VL (map (fun u => VL [VS (fst u); VZ (Zpos (fst (snd u))); VZ (snd (snd u))]) units))
  | "set_info_params", VL [ct; ce; it; ie; VS dt; hb] =>
      match get_opt_bytes ct, get_opt_bytes ce, get_opt_bytes it, get_opt_bytes ie, getB hb with
      | Some ct, Some ce, Some it, Some ie, Some hb =>
          let '(ty, enc, dt', blk) := set_info_params ct ce it ie dt hb in
          Some (VL [VS ty; VS enc; VS dt'; vbool blk])
      | _, _, _, _, _ => Some bad end
  | "geom_preds", VL [os; ns; oc; nc; VZ ch] =>
      match get_t3 os, get_t3 ns, get_t3 oc, get_t3 nc with
      | Some os, Some ns, Some oc, Some nc =>
          let g := mk_geom os ns oc nc ch in
          Some (VL [vbool (geom_pos g); vbool (sizes_ok g); vbool (compat g);
                    vbool (tiling_guard g); vbool (stretch_class g); vbool (zero_half_class g);
                    v_t3 (factors g)])
      | _, _, _, _ => Some bad end
  | "read_chunk", VL [sz; cs; lo; hi] =>
      match get_t3 sz, get_t3 cs, get_t3 lo, get_t3 hi with
      | Some sz, Some cs, Some lo, Some hi =>
          Some (v_outcome (fun c => v_t3 (a_sh c))
                  (read_chunk (arr_of_list 1 sz []) sz cs lo hi))
      | _, _, _, _ => Some bad end
  | "tile_level", VL [m; os; ns; oc; nc; VZ ch; data] =>
      match get_method m, get_t3 os, get_t3 ns, get_t3 oc, get_t3 nc, getZs data with
      | Some ds, Some os, Some ns, Some oc, Some nc, Some data =>
          let g := mk_geom os ns oc nc ch in
          if geom_pos g then
            Some (v_outcome (fun l => VL (map v_chunk l))
                            (tile_level ds g (arr_of_list ch os data)))
          else Some bad
      | _, _, _, _, _, _ => Some bad end
  | "tile_level_src", VL [m; os; ns; oc; nc; VZ ch; data; VL bad] =>
      (* as tile_level, but the source scale is a chunk store in which the
         chunks whose origins are listed fail to read (AccessErr / FormatErr) *)
      match get_method m, get_t3 os, get_t3 ns, get_t3 oc, get_t3 nc, getZs data,
            all_some (map get_failure bad) with
      | Some ds, Some os, Some ns, Some oc, Some nc, Some data, Some bad =>
          let g := mk_geom os ns oc nc ch in
          if geom_pos g then
            Some (v_outcome (fun l => VL (map v_chunk l))
                            (tile_level_src ds g (src_with_failures (arr_of_list ch os data) bad)))
          else Some bad_args
      | _, _, _, _, _, _, _ => Some bad_args end
  | "ds_whole", VL [m; f; VZ ch; sh; data] =>
      match get_method m, get_t3 f, get_t3 sh, getZs data with
      | Some ds, Some f, Some sh, Some data => Some (v_arr (ds f (arr_of_list ch sh data)))
      | _, _, _, _ => Some bad end
  | "pyramid", VL [m; VZ ch; VZ poison; VL scales; data] =>
      match get_method m, all_some (map get_scale_geo scales), getZs data with
      | Some ds, Some (s0 :: rest), Some data =>
          if all_pairs_ok geom_pos ch (s0 :: rest) then
            Some (v_outcome (fun l => VL (map v_arr l))
                            (pyramid ds poison ch (s0 :: rest) (arr_of_list ch (sg_size s0) data)))
          else Some bad
      | _, _, _ => Some bad end
  | _, _ => None
  end.
