(* Dispatch fragment for C09: op name + argument value -> reply. *)
From Coq Require Import NArith ZArith List String.
From NGS Require Import Val Ints Morton.
Import ListNotations.
Open Scope string_scope.

Definition d_c09 (op : string) (a : val) : option val :=
  match op, a with
  | "mk_vspec", VL [cs; sz] =>
      match getZs cs, getZs sz with
      | Some cs, Some sz =>
          Some (v_outcome (fun v => VL [vNs (vs_grid v); vNs (vs_nbits v)]) (mk_vspec cs sz))
      | _, _ => Some bad end
  | "cmc", VL [cs; sz; co] =>
      match getZs cs, getZs sz, getZs co with
      | Some cs, Some sz, Some co =>
          Some (v_outcome vN (bind (mk_vspec cs sz) (fun v => cmc_model v co)))
      | _, _, _ => Some bad end
  | "get_cmc", VL [cs; sz; VZ x; VZ y; VZ z] =>
      match getZs cs, getZs sz with
      | Some cs, Some sz =>
          Some (v_outcome vN (bind (mk_vspec cs sz) (fun v => get_cmc_model v x y z)))
      | _, _ => Some bad end
  | "cmc_spec", VL [g; p] =>
      match getNs g, getNs p with
      | Some g, Some p => Some (VL [vN (cmc_spec g p); vbool (in_gridb g p); vNs (uncmc g (cmc_spec g p))])
      | _, _ => Some bad end
  | "routing", VL [p; m; s; id] =>
      match getN p, getN m, getN s, getN id with
      | Some p, Some m, Some s, Some id =>
          Some (VL [vN (shard_key_model p m s id); vN (minishard_key_model p m id);
                    VS (shard_name_model s (shard_key_model p m s id));
                    vN (header_len_model m);
                    vN (spec_shard p m s id); vN (spec_minishard p m id);
                    VS (spec_name s (spec_shard p m s id))])
      | _, _, _, _ => Some bad end
  | _, _ => None
  end.

