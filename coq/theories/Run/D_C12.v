(* Dispatch fragment for C12 / C14 / C18 (storage accessors). *)
From Coq Require Import NArith ZArith List String.
From NGS Require Import Val Ints StFS StFileAccessor StSharded StHttp StFaults.
Import ListNotations.
Open Scope string_scope.

(* ---------- decoding ---------- *)

Definition opt_bind {A C} (o : option A) (f : A -> option C) : option C :=
  match o with Some a => f a | None => None end.
Notation "x <- e ;; k" := (opt_bind e (fun x => k)) (at level 60, e at next level, right associativity).

Definition g_path (v : val) : option path :=
  match v with VS s => Some (parse_parts s) | _ => None end.

Definition g_cfg (v : val) : option cfg :=
  match v with
  | VL [b; f; g; VZ l] =>
      b <- g_path b ;; f <- getB f ;; g <- getB g ;;
      Some {| base := b; flat := f; gzip := g; level := Z.to_N l |}
  | _ => None end.

Fixpoint g_blob (fuel : nat) (v : val) : option blob :=
  match fuel with O => None | S f =>
  match v with
  | VL [VT "plain"; VS b] => Some (BPlain b)
  | VL [VT "gz"; VZ l; VS b] => Some (BGz (Z.to_N l) b)
  | VL [VT "cut"; VZ k; x] => option_map (BCut (Z.to_N k)) (g_blob f x)
  | _ => None
  end end.

Definition g_node (v : val) : option (node blob) :=
  match v with
  | VT "dir" => Some Dir
  | _ => option_map File (g_blob 8 v)
  end.

Definition g_fs (v : val) : option (fs blob) :=
  match v with
  | VL l => all_some (map (fun e => match e with
                                    | VL [p; n] => p <- g_path p ;; n <- g_node n ;; Some (p, n)
                                    | _ => None end) l)
  | _ => None end.

Definition g_gzres (v : val) : option gzres :=
  match v with
  | VL [VT "ok"; VS b] => Some (GzOk b)
  | VT "bad" => Some GzBad | VT "eof" => Some GzEOF | VT "zlib" => Some GzZlib
  | _ => None end.
Definition g_gztable (v : val) : option gz_table :=
  match v with
  | VL l => all_some (map (fun e => match e with
                                    | VL [VS k; r] => r <- g_gzres r ;; Some (k, r)
                                    | _ => None end) l)
  | _ => None end.

Definition g_coords (v : val) : option coords :=
  match v with
  | VL [VZ a; VZ b; VZ c; VZ d; VZ e; VZ f] =>
      Some {| cx0 := a; cx1 := b; cy0 := c; cy1 := d; cz0 := e; cz1 := f |}
  | _ => None end.

Definition g_op (v : val) : option op :=
  match v with
  | VL [VT "sf"; VS n; VS b; VS m; ow] => ow <- getB ow ;; Some (OStoreFile n b m ow)
  | VL [VT "ff"; VS n] => Some (OFetchFile n)
  | VL [VT "ex"; VS n] => Some (OExists n)
  | VL [VT "sc"; VS k; c; VS b; VS m; ow] =>
      c <- g_coords c ;; ow <- getB ow ;; Some (OStoreChunk k c b m ow)
  | VL [VT "fc"; VS k; c] => c <- g_coords c ;; Some (OFetchChunk k c)
  | _ => None end.
Definition g_ops (v : val) : option (list op) :=
  match v with VL l => all_some (map g_op l) | _ => None end.

(* ---------- encoding ---------- *)

Fixpoint v_blob (b : blob) : val :=
  match b with
  | BPlain x => VL [VT "plain"; VS x]
  | BGz l x => VL [VT "gz"; vN l; VS x]
  | BCut k x => VL [VT "cut"; vN k; v_blob x]
  end.

Definition join_path (p : path) : list N := List.concat (map (fun c => slash :: c) p).

Definition v_node (n : node blob) : val :=
  match n with Dir => VT "dir" | File b => v_blob b end.
Definition v_fs (t : fs blob) : val :=
  VL (map (fun '(p, n) => VL [VS (join_path p); v_node n]) (listing blob t)).

Definition v_resval (r : resval blob) : val :=
  match r with VUnit => VT "none" | VBool b => vbool b | VData d => v_blob d end.
Definition v_out (o : outcome (resval blob)) : val := v_outcome v_resval o.

Definition v_aval (a : aval) : val :=
  match a with AUnit => VT "none" | ABool b => vbool b | AData d => VL [VT "plain"; VS d] end.

Definition v_call (c : call blob) : val :=
  match c with
  | CIsFile p => VL [VT "isfile"; VS (join_path p)]
  | CExists p => VL [VT "exists"; VS (join_path p)]
  | CMakedirs p => VL [VT "makedirs"; VS (join_path p)]
  | CUnlink p => VL [VT "unlink"; VS (join_path p)]
  | COpen p MR => VL [VT "open"; VS (join_path p); VT "m-rb"]
  | COpen p MW => VL [VT "open"; VS (join_path p); VT "m-wb"]
  | COpen p MX => VL [VT "open"; VS (join_path p); VT "m-xb"]
  | CWrite p _ => VL [VT "write"; VS (join_path p)]
  | CRead p => VL [VT "read"; VS (join_path p)]
  | CClose p => VL [VT "close"; VS (join_path p)]
  end.

(* ---------- info oracle, options, dispatch ---------- *)

Definition g_crash (t : string) : crash :=
  if String.eqb t "AttributeError" then TypeError     (* no constructor: reported by name below *)
  else if String.eqb t "TypeError" then TypeError
  else if String.eqb t "ValueError" then ValueError
  else if String.eqb t "KeyError" then KeyError
  else AssertionError.

Definition g_pscale (v : val) : option pscale :=
  match v with
  | VT "notdict" => Some SNotDict
  | VT "nosharding" => Some SNoSharding
  | VT "shardingbad" => Some SShardingBad
  | VL [VT "type"; VS t] => Some (SType (Some t))
  | VL [VT "type"; VT _] => Some (SType None)
  | _ => None end.
Definition g_pinfo (v : val) : option pinfo :=
  match v with
  | VT "badjson" => Some PBadJson
  | VT "notdict" => Some PNotDict
  | VL [VT "crash"; VT k] => Some (PCrash (g_crash k))
  | VL [VT "scales"; VL l] => option_map PScales (all_some (map g_pscale l))
  | _ => None end.

Definition info_table := list (list N * pinfo).
Definition g_infotable (v : val) : option info_table :=
  match v with
  | VL l => all_some (map (fun e => match e with
                                    | VL [VS k; p] => p <- g_pinfo p ;; Some (k, p)
                                    | _ => None end) l)
  | _ => None end.
Fixpoint info_lookup (tb : info_table) (b : list N) : pinfo :=
  match tb with
  | [] => PBadJson
  | (k, r) :: rest => if bytes_eqb k b then r else info_lookup rest b
  end.
Definition blob_parse_info (tb : info_table) (d : blob) : pinfo :=
  match d with BPlain b => info_lookup tb b | _ => PBadJson end.

Definition g_options (v : val) : option options :=
  match v with
  | VL [f; g; VZ l; st; sp] =>
      f <- getB f ;; g <- getB g ;; st <- getB st ;; sp <- getB sp ;;
      Some {| o_flat := f; o_gzip := g; o_level := Z.to_N l;
              o_shard_truthy := st; o_shard_present := sp |}
  | _ => None end.

Definition v_cfg (c : cfg) : val :=
  VL [VS (join_path (base c)); vbool (flat c); vbool (gzip c); vN (level c)].

Definition v_sel (s : selection) : val :=
  match s with
  | SelFile c => VL [VT "file"; v_cfg c]
  | SelShardedFile b => VL [VT "sharded-file"; VS (join_path b)]
  | SelHttp u => VL [VT "http"; VS u]
  | SelShardedHttp u => VL [VT "sharded-http"; VS u]
  end.
Definition v_dres (d : dres) : val :=
  match d with
  | DOk s => VL [VT "ok"; v_sel s]
  | DUrlError => VL [VT "URLError"]
  | DErr o => v_outcome (fun _ => VT "none") o
  | DUnmodelled => VL [VT "unmodelled"]
  end.

(* ---------- server ---------- *)

Definition blob_slice (d : blob) (a b : N) : option blob :=
  match d with
  | BPlain x =>
      if (lenN x <=? a)%N then None
      else Some (BPlain (firstn (N.to_nat (b + 1 - a)%N) (skipn (N.to_nat a) x)))
  | _ => None
  end.
Definition blob_unplain (d : blob) : option (list N) :=
  match d with BPlain x => Some x | _ => None end.

Definition g_scfg (v : val) : option scfg :=
  match v with
  | VL [VS o; r; rw; gs] =>
      r <- g_path r ;; rw <- getB rw ;; gs <- getB gs ;;
      Some {| s_origin := o; s_root := r; s_rewrite := rw; s_gzip_static := gs |}
  | _ => None end.

(* scripted behaviours layered over [serve], per request number *)
(* SCutBody: the reply starts normally and the connection is lost in the body
   (a transport failure, for the client the same class as a dropped
   connection); SBadGzip: Content-Encoding: gzip with a damaged stream.  Both
   only apply to GET replies that would be 200 / 206. *)
Inductive script := SNormal | SStatus (s : N) | SDrop | SShort | SLong | SIgnoreRange
                  | SCutBody | SBadGzip.
Definition g_script (v : val) : option script :=
  match v with
  | VT "normal" => Some SNormal | VL [VT "status"; VZ s] => Some (SStatus (Z.to_N s))
  | VT "drop" => Some SDrop | VT "short" => Some SShort | VT "long" => Some SLong
  | VT "ignore-range" => Some SIgnoreRange
  | VT "cut-body" => Some SCutBody | VT "cut-chunked" => Some SCutBody
  | VT "bad-gzip" => Some SBadGzip
  | _ => None end.
Definition g_scripts (v : val) : option (list script) :=
  match v with VL l => all_some (map g_script l) | _ => None end.

Definition scripted (sc : scfg) (t : fs blob) (scr : list script) : server blob :=
  fun n rq =>
  let normal := serve blob (BPlain []) blob_slice sc t n rq in
  match nth n scr SNormal with
  | SNormal => normal
  | SStatus s => Resp s false (BPlain [])
  | SDrop => ConnErr
  | SIgnoreRange =>
      serve blob (BPlain []) blob_slice sc t n
            {| r_meth := r_meth rq; r_url := r_url rq; r_range := None |}
  | SShort =>
      match normal with
      | Resp st enc (BPlain x) => Resp st enc (BPlain (removelast x))
      | r => r end
  | SLong =>
      match normal with
      | Resp st enc (BPlain x) => Resp st enc (BPlain (x ++ [0%N]))
      | r => r end
  | SCutBody =>
      match r_meth rq, normal with
      | GET, Resp st _ _ => if orb (st =? 200)%N (st =? 206)%N then ConnErr else normal
      | _, _ => normal end
  | SBadGzip =>
      match r_meth rq, normal with
      | GET, Resp st _ _ =>
          (* the table-driven gunzip answers "bad" for this body *)
          if orb (st =? 200)%N (st =? 206)%N then Resp st true (BPlain [255%N]) else normal
      | _, _ => normal end
  end.

Definition v_req (r : req) : val :=
  VL [VT (match r_meth r with GET => "GET" | HEAD => "HEAD" end); VS (r_url r);
      match r_range r with Some (a, b) => VL [vN a; vN b] | None => VT "none" end].

Definition v_bout (o : outcome blob) : val := v_outcome v_blob o.

(* identity decoders: the sharded fixtures of C14 use raw encodings; what the
   local reader finds for an identifier is supplied by the harness *)
Definition g_locate (v : val) : option (outcome (N * N)) :=
  match v with
  | VL [VT "ok"; VZ a; VZ b] => Some (Ok (Z.to_N a, Z.to_N b))
  | VT "IOErr" => Some IOErr
  | VL [VT "Crash"; VT "IndexError"] => Some (Crash IndexError)
  | VL [VT "Crash"; VT k] => Some (Crash (g_crash k))
  | _ => None end.

(* ---------- faults ---------- *)

Definition g_errno (v : val) : option errno :=
  match v with
  | VT "ENOENT" => Some ENOENT | VT "EEXIST" => Some EEXIST | VT "ENOTDIR" => Some ENOTDIR
  | VT "EISDIR" => Some EISDIR | VT "ENOSPC" => Some ENOSPC | VT "EACCES" => Some EACCES
  | VT "EIO" => Some EIO | _ => None end.

Definition g_accessor (v : val) : option (op -> prog blob (outcome (resval blob))) * option gz_table :=
  (None, None).

(* ---------- ShardedFileAccessor.close ---------- *)

Definition g_bytes_list (v : val) : option (list (list N)) :=
  match v with VL l => all_some (map getS l) | _ => None end.

Definition g_shard (v : val) : option (shard_desc * bool) :=
  match v with
  | VL (VS dir :: VS file :: VS zero :: data :: idx :: VS hdr :: dirty :: _) =>
      data <- g_bytes_list data ;; idx <- g_bytes_list idx ;; dirty <- getB dirty ;;
      Some ({| sd_dir := parse_parts dir; sd_file := parse_parts file; sd_zero := zero;
               sd_data := data; sd_idx := idx; sd_hdr := hdr |}, dirty)
  | _ => None end.
Definition g_shards (v : val) : option (list (shard_desc * bool)) :=
  match v with VL l => all_some (map g_shard l) | _ => None end.

Definition v_cres (r : cres) : val :=
  match r with COk => VT "ok" | CIOErr => VT "IOErr" end.

(* what a failing write leaves: the content before it (table of the shards) *)
Fixpoint prev_lookup (tb : list (list N * list N)) (b : list N) : list N :=
  match tb with
  | [] => []
  | (k, v) :: r => if bytes_eqb k b then v else prev_lookup r b
  end.
Definition close_trunc (l : list (shard_desc * bool)) (d : blob) : blob :=
  match d with
  | BPlain b => BPlain (prev_lookup (List.concat (map (fun x => prev_table (fst x)) l)) b)
  | x => x
  end.

(* ---------- the fragment ---------- *)

Definition fa_prog (c : cfg) (tb : gz_table) (o : op) :=
  op_prog blob BPlain BGz (blob_gunzip tb) c o.

Definition d_c12 (opn : string) (a : val) : option val :=
  match opn, a with
  (* FileAccessor: run an op sequence; reply: outcomes, final tree, per-op traces *)
  | "fa_run", VL [c; tb; t; ops] =>
      Some (match g_cfg c, g_gztable tb, g_fs t, g_ops ops with
            | Some c, Some tb, Some t, Some ops =>
                let '(outs, t') := run_ops blob BPlain BGz (blob_gunzip tb) c t ops in
                VL [VL (map v_out outs); v_fs t']
            | _, _, _, _ => bad end)
  | "fa_trace", VL [c; tb; t; o] =>
      Some (match g_cfg c, g_gztable tb, g_fs t, g_op o with
            | Some c, Some tb, Some t, Some o =>
                VL (map v_call (trace blob (BPlain []) t (fa_prog c tb o)))
            | _, _, _, _ => bad end)
  (* ShardedFileAccessor: constructor, then file ops *)
  | "sh_run", VL [b; t; ops] =>
      Some (match g_path b, g_fs t, g_ops ops with
            | Some b, Some t, Some ops =>
                let '(r0, t0) := run blob (BPlain []) t (sh_ctor blob b) in
                match r0 with
                | Ok _ => let '(outs, t') := sh_run_ops blob BPlain b t0 ops in
                          VL [v_out r0; VL (map v_out outs); v_fs t']
                | _ => VL [v_out r0; VL []; v_fs t0]
                end
            | _, _, _ => bad end)
  | "sh_trace", VL [b; t; o] =>
      Some (match g_path b, g_fs t, g_op o with
            | Some b, Some t, Some o =>
                VL (map v_call (trace blob (BPlain []) t (sh_op_prog blob BPlain b o)))
            | _, _, _ => bad end)
  (* specification: abstract map *)
  | "spec_run", VL [f; ops] =>
      Some (match getB f, g_ops ops with
            | Some f, Some ops =>
                let '(outs, m) := spec_ops f [] ops in
                VL [VL (map (v_outcome v_aval) outs);
                    VL (map (fun '(k, v) => VL [VS (join_path k); VS v]) m)]
            | _, _ => bad end)
  | "spec_paths", VL [VS k; c] =>
      Some (match g_coords c with
            | Some c => VL [VS (join_path (spec_chunk_rel true k c));
                            VS (join_path (spec_chunk_rel false k c));
                            vbool (simple_comp k)]
            | None => bad end)
  | "spec_norm", VS n =>
      Some (match spec_norm n with Some p => VL [VT "ok"; VS (join_path p)] | None => VT "none" end)
  (* get_accessor_for_url: reply (branch, decision, final tree / requests) *)
  | "dispatch", VL [VS url; o; tb; itb; t; sc; scr] =>
      Some (match g_options o, g_gztable tb, g_infotable itb, g_fs t with
            | Some o, Some tb, Some itb, Some t =>
                match dispatch_branch url with
                | BrUrlError => VL [VT "URLError"]
                | BrFile pn =>
                    let '(d, t') := run blob (BPlain []) t
                       (dispatch_file blob BPlain (blob_gunzip tb) (blob_parse_info itb) pn o) in
                    VL [VT "local"; v_dres d; v_fs t']
                | BrHttp u =>
                    match g_scfg sc, g_scripts scr with
                    | Some sc, Some scr =>
                        let p := dispatch_http blob BPlain (blob_gunzip tb) (blob_parse_info itb) u o in
                        let srv := scripted sc t scr in
                        VL [VT "remote"; v_dres (fst (hrun blob srv 0 p));
                            VL (map v_req (htrace blob srv 0 p))]
                    | _, _ => bad end
                end
            | _, _, _, _ => bad end)
  | "pathname", VS url =>
      Some (match convert_file_url_to_pathname url with
            | UOk p => VL [VT "ok"; VS p] | UrlError => VL [VT "URLError"] end)
  | "http_init", VS url => Some (v_outcome VS (http_init url))
  (* HttpAccessor through a (scripted) server over a tree *)
  | "http_fetch", VL [sc; scr; tb; t; VS bu; VS rel] =>
      Some (match g_scfg sc, g_scripts scr, g_gztable tb, g_fs t with
            | Some sc, Some scr, Some tb, Some t =>
                let p := http_fetch_file blob BPlain (blob_gunzip tb) bu rel in
                let srv := scripted sc t scr in
                VL [v_bout (fst (hrun blob srv 0 p)); VL (map v_req (htrace blob srv 0 p))]
            | _, _, _, _ => bad end)
  | "http_fetch_chunk", VL [sc; scr; tb; t; VS bu; VS k; c] =>
      Some (match g_scfg sc, g_scripts scr, g_gztable tb, g_fs t, g_coords c with
            | Some sc, Some scr, Some tb, Some t, Some c =>
                let p := http_fetch_chunk blob BPlain (blob_gunzip tb) bu k c in
                let srv := scripted sc t scr in
                VL [v_bout (fst (hrun blob srv 0 p)); VL (map v_req (htrace blob srv 0 p))]
            | _, _, _, _, _ => bad end)
  | "http_exists", VL [sc; scr; t; VS bu; VS rel] =>
      Some (match g_scfg sc, g_scripts scr, g_fs t with
            | Some sc, Some scr, Some t =>
                let p := http_file_exists blob bu rel in
                let srv := scripted sc t scr in
                VL [v_outcome vbool (fst (hrun blob srv 0 p)); VL (map v_req (htrace blob srv 0 p))]
            | _, _, _ => bad end)
  (* HttpShard construction + fetch_cmc_chunk (raw encodings) *)
  | "hs_fetch", VL [sc; scr; t; VS scale_url; VS shard_name; VZ hl; VZ cmc; loc] =>
      Some (match g_scfg sc, g_scripts scr, g_fs t, g_locate loc with
            | Some sc, Some scr, Some t, Some loc =>
                let p := hs_fetch blob BPlain (blob_gunzip []) blob_unplain (fun b => Some b)
                           (fun _ _ => loc) (fun b => Ok b)
                           scale_url shard_name (Z.to_N hl) (Z.to_N cmc) in
                let srv := scripted sc t scr in
                VL [v_bout (fst (hrun blob srv 0 p)); VL (map v_req (htrace blob srv 0 p))]
            | _, _, _, _ => bad end)
  (* faults and crash cuts *)
  | "fa_fault", VL [c; tb; t; o; VZ k; e] =>
      Some (match g_cfg c, g_gztable tb, g_fs t, g_op o, g_errno e with
            | Some c, Some tb, Some t, Some o, Some e =>
                let '(r, t') := run_fault blob (BPlain []) (BCut 0) (Z.to_nat k) e t (fa_prog c tb o) in
                VL [v_out r; v_fs t']
            | _, _, _, _, _ => bad end)
  | "sh_fault", VL [b; t; o; VZ k; e] =>
      Some (match g_path b, g_fs t, g_op o, g_errno e with
            | Some b, Some t, Some o, Some e =>
                let '(r, t') := run_fault blob (BPlain []) (BCut 0) (Z.to_nat k) e t
                                          (sh_op_prog blob BPlain b o) in
                VL [v_out r; v_fs t']
            | _, _, _, _ => bad end)
  | "fa_cut", VL [c; tb; t; o; VZ k; VZ cls] =>
      Some (match g_cfg c, g_gztable tb, g_fs t, g_op o with
            | Some c, Some tb, Some t, Some o =>
                v_fs (run_cut blob (BPlain []) (BCut (Z.to_N cls)) (Z.to_nat k) t (fa_prog c tb o))
            | _, _, _, _ => bad end)
  | "sh_cut", VL [b; t; o; VZ k; VZ cls] =>
      Some (match g_path b, g_fs t, g_op o with
            | Some b, Some t, Some o =>
                v_fs (run_cut blob (BPlain []) (BCut (Z.to_N cls)) (Z.to_nat k) t
                              (sh_op_prog blob BPlain b o))
            | _, _, _ => bad end)
  (* ShardedFileAccessor.close() with the primitive call k failing (k < 0: no fault), then a
     second close() without fault on the state and tree the first one left.  Reply: calls of
     the fault-free first close, outcome / dirty flags / tree after the first close, calls,
     outcome / dirty flags / tree of the second, and whether the hypotheses of the
     tree theorems (StFaultsProofs.close_retry_checked) hold for this case *)
  | "sh_close", VL [t; sh; VZ k; e] =>
      Some (match g_fs t, g_shards sh, g_errno e with
            | Some t, Some l, Some e =>
                let p := close_prog blob BPlain l in
                let '((r1, s1), t1) :=
                  if (k <? 0)%Z then run blob (BPlain []) t p
                  else run_fault blob (BPlain []) (close_trunc l) (Z.to_nat k) e t p in
                let l2 := retry_descs l s1 in
                let p2 := close_prog blob BPlain l2 in
                let '((r2, s2), t2) := run blob (BPlain []) t1 p2 in
                VL [VL (map v_call (trace blob (BPlain []) t p));
                    v_cres r1; VL (map vbool s1); v_fs t1;
                    VL (map v_call (trace blob (BPlain []) t1 p2));
                    v_cres r2; VL (map vbool s2); v_fs t2;
                    vbool (close_hyps blob l t)]
            | _, _, _ => bad end)
  | _, _ => None
  end.
