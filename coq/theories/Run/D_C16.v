(* Dispatch fragment for C16 (info and transform of --generate-info). *)
From Coq Require Import NArith ZArith QArith List String.
From NGS Require Import Val Ints MeLinks TrAffine.
Import ListNotations.
Open Scope string_scope.

Definition getQ (v : val) : option Q :=
  match v with
  | VL [VZ n; VZ d] => match d with Zpos p => Some (n # p) | _ => None end
  | _ => None end.
Definition vQ (q : Q) : val := let r := Qred q in VL [VZ (Qnum r); VZ (Zpos (Qden r))].

Definition get_row (v : val) : option qrow :=
  match v with VL [a; b; c; d] =>
    match getQ a, getQ b, getQ c, getQ d with
    | Some a, Some b, Some c, Some d => Some (a, b, c, d) | _, _, _, _ => None end
  | _ => None end.
Definition get_mat (v : val) : option qmat :=
  match v with VL [a; b; c; d] =>
    match get_row a, get_row b, get_row c, get_row d with
    | Some a, Some b, Some c, Some d => Some (a, b, c, d) | _, _, _, _ => None end
  | _ => None end.
Definition get_vec (v : val) : option (vec3 Q) :=
  match v with VL [a; b; c] =>
    match getQ a, getQ b, getQ c with Some a, Some b, Some c => Some (a, b, c) | _, _, _ => None end
  | _ => None end.
Definition v_row (r : qrow) : val := let '(a, b, c, d) := r in VL [vQ a; vQ b; vQ c; vQ d].
Definition v_mat (m : qmat) : val := let '(a, b, c, d) := m in VL [v_row a; v_row b; v_row c; v_row d].

Definition dtype_names : list (string * np_dtype) :=
  [("uint8", NUint8); ("uint16", NUint16); ("uint32", NUint32); ("uint64", NUint64);
   ("int8", NInt8); ("int16", NInt16); ("int32", NInt32); ("int64", NInt64);
   ("float16", NFloat16); ("float32", NFloat32); ("float64", NFloat64);
   ("complex64", NComplex64); ("complex128", NComplex128); ("bool", NBool)].
Fixpoint lookup_dtype (t : string) (l : list (string * np_dtype)) : option np_dtype :=
  match l with [] => None | (n, d) :: r => if String.eqb t n then Some d else lookup_dtype t r end.
Definition get_np (v : val) : option np_dtype :=
  match v with VT t => lookup_dtype t dtype_names | _ => None end.
Definition np_eqb (a b : np_dtype) : bool :=
  match a, b with
  | NUint8, NUint8 | NUint16, NUint16 | NUint32, NUint32 | NUint64, NUint64 | NInt8, NInt8
  | NInt16, NInt16 | NInt32, NInt32 | NInt64, NInt64 | NFloat16, NFloat16 | NFloat32, NFloat32
  | NFloat64, NFloat64 | NComplex64, NComplex64 | NComplex128, NComplex128 | NBool, NBool => true
  | _, _ => false end.
Fixpoint name_of (d : np_dtype) (l : list (string * np_dtype)) : string :=
  match l with [] => "?" | (n, d') :: r => if np_eqb d d' then n else name_of d r end.
Definition v_np (d : np_dtype) : val := VT (name_of d dtype_names).

Definition v_shard (s : shard_opts) : val :=
  VL [VZ (so_minishard s); VZ (so_shard s); VZ (so_preshift s); vbool (so_gzip s)].
Definition v_info (i : info_fields) : val :=
  VL [VZ (if_num_channels i); v_np (if_data_type i); vZs (if_size i); VL (map vQ (if_resolution i));
      match if_sharding i with Some s => v_shard s | None => VT "none" end; vbool (if_imperfect i)].

Definition get_entry (v : val) : option jentry :=
  match v with
  | VL [VS r; VZ z] => Some {| je_repr := r; je_int := Some z |}
  | VL [VS r; VT _] => Some {| je_repr := r; je_int := None |}
  | _ => None end.
Definition get_entries (v : val) : option (list (list jentry)) :=
  match v with
  | VL rows => all_some (map (fun r => match r with VL es => all_some (map get_entry es) | _ => None end) rows)
  | _ => None end.
Definition v_tokens (o : option (list (list (list N)))) : val :=
  match o with
  | Some rows => VL [VT "some"; VL (map (fun r => VL (map VS r)) rows)]
  | None => VL [VT "none"] end.

Definition d_c16 (op : string) (a : val) : option val :=
  match op, a with
  | "info_transform", VL [m; s] =>
      match get_mat m, get_vec s with
      | Some m, Some s => Some (v_mat (q_info_transform m s))
      | _, _ => Some bad end
  | "nifti_to_ng", VL [m; s] =>
      match get_mat m, get_vec s with
      | Some m, Some s => Some (v_mat (q_nifti_to_ng m s))
      | _, _ => Some bad end
  | "info_assemble", VL [shape; rgb; dt; VL vs; VS sharding; gz] =>
      match getZs shape, getB rgb, get_np dt, all_some (map getQ vs), getB gz with
      | Some shape, Some rgb, Some dt, Some vs, Some gz =>
          Some (v_outcome v_info (info_assemble shape rgb dt vs sharding gz))
      | _, _, _, _, _ => Some bad end
  | "guess", dt =>
      match get_np dt with
      | Some d => let '(g, imp) := guess_dtype d in Some (VL [v_np g; vbool imp; vbool (holds_exactly d g)])
      | None => Some bad end
  | "compact_json", m =>
      match get_entries m with
      | Some m => let b := compact_json m in Some (VL [VS b; v_tokens (compact_parse b)])
      | None => Some bad end
  | "compact_parse", VS b => Some (v_tokens (compact_parse b))
  | _, _ => None
  end.
