(* Single entry point of the executable model: op name + argument value.
   Each property cluster contributes a fragment D_xxx.v exporting a function
   [string -> val -> option val]; the first fragment that knows the op answers. *)
From Coq Require Import List String.
From NGS Require Import Val D_C09 D_C03 D_C20 D_C01 D_C13 D_C11 D_C15 D_C16 D_C17 D_C08 D_C04 D_C12 D_C02.
Import ListNotations.
Open Scope string_scope.

Definition fragments : list (string -> val -> option val) :=
  [ d_c09; d_c03; d_c20; d_c01; d_c13; d_c11; d_c15; d_c16; d_c17; d_c08; d_c04; d_c12; d_c02 ].

Fixpoint first_some (fs : list (string -> val -> option val)) (op : string) (a : val) : val :=
  match fs with
  | [] => VT "unknown-op"
  | f :: r => match f op a with Some v => v | None => first_some r op a end
  end.

Definition dispatch (op : string) (a : val) : val := first_some fragments op a.
