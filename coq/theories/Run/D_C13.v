(* Dispatch fragment for C13 / C19. *)
From Coq Require Import NArith ZArith List String.
From NGS Require Import Val Ints PioModel VolModel ConvModel D_C03 D_C01.
Import ListNotations.
Open Scope string_scope.

(* the order in which convert_chunks visits (scale key, chunk coordinates) *)
Definition conv_order (dscales : list scale) : list (list N * coords) :=
  flat_map (fun s => flat_map (fun cs => map (fun c => (sc_key s, c)) (cgrid (sc_size s) cs))
                              (sc_chunk_sizes s))
           (rev dscales).

Definition d_c13 (op : string) (a : val) : option val :=
  match op, a with
  | "conv_order", VL scs =>
      match all_some (map get_scale scs) with
      | Some scs => Some (VL (map (fun '(k, c) => VL [VS k; v_coords c]) (conv_order scs)))
      | None => Some bad end
  | _, _ => None
  end.
