(* Boolean equality on wire values and a batch checker used by the in-kernel
   cross-check of the extracted binary (thorough tier): the generated case
   file lists (op, argument, reply-of-the-binary) triples and vm_compute
   reports the indices where dispatch disagrees. *)
From Coq Require Import NArith ZArith List String Bool.
From NGS Require Import Val Dispatch.
Import ListNotations.

Fixpoint list_eqb {A} (eqb : A -> A -> bool) (a b : list A) : bool :=
  match a, b with
  | [], [] => true
  | x :: r, y :: s => eqb x y && list_eqb eqb r s
  | _, _ => false
  end.

Fixpoint val_eqb (a b : val) : bool :=
  match a, b with
  | VZ x, VZ y => Z.eqb x y
  | VS x, VS y => list_eqb N.eqb x y
  | VT x, VT y => String.eqb x y
  | VL x, VL y =>
      (fix go (p q : list val) : bool :=
         match p, q with
         | [], [] => true
         | u :: r, v :: s => val_eqb u v && go r s
         | _, _ => false
         end) x y
  | _, _ => false
  end.

Fixpoint mismatches_from (i : nat) (cases : list (string * val * val)) : list nat :=
  match cases with
  | [] => []
  | (op, arg, want) :: r =>
      if val_eqb (dispatch op arg) want then mismatches_from (S i) r
      else i :: mismatches_from (S i) r
  end.
Definition mismatches := mismatches_from 0.
