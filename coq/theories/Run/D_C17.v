(* Dispatch fragment for C17 (mesh formats). *)
From Coq Require Import NArith ZArith List String.
From NGS Require Import Val Ints MePrecomputed MeAffine MeVtk MeLinks.
Import ListNotations.
Open Scope string_scope.

Definition get3N (v : val) : option (N * N * N) :=
  match v with VL [a; b; c] =>
    match getN a, getN b, getN c with Some a, Some b, Some c => Some (a, b, c) | _, _, _ => None end
  | _ => None end.
Definition get3Z (v : val) : option (Z * Z * Z) :=
  match v with VL [VZ a; VZ b; VZ c] => Some (a, b, c) | _ => None end.
Definition get3Ns (v : val) : option (list (N * N * N)) :=
  match v with VL l => all_some (map get3N l) | _ => None end.
Definition get3Zs (v : val) : option (list (Z * Z * Z)) :=
  match v with VL l => all_some (map get3Z l) | _ => None end.
Definition v3N (t : N * N * N) : val := let '(a, b, c) := t in VL [vN a; vN b; vN c].
Definition v3Z (t : Z * Z * Z) : val := let '(a, b, c) := t in VL [VZ a; VZ b; VZ c].
Definition v3Ns (l : list (N * N * N)) : val := VL (map v3N l).
Definition v3Zs (l : list (Z * Z * Z)) : val := VL (map v3Z l).
Definition vmesh (m : list tri * list tri) : val := VL [v3Ns (fst m); v3Ns (snd m)].
Definition vopt {A} (f : A -> val) (o : option A) : val :=
  match o with Some a => VL [VT "some"; f a] | None => VL [VT "none"] end.

Definition get_dtype (v : val) : option idx_dtype :=
  match v with
  | VT t =>
      if String.eqb t "bool" then Some DBool else if String.eqb t "uint8" then Some DU8
      else if String.eqb t "uint16" then Some DU16 else if String.eqb t "uint32" then Some DU32
      else if String.eqb t "uint64" then Some DU64 else if String.eqb t "int8" then Some DI8
      else if String.eqb t "int16" then Some DI16 else if String.eqb t "int32" then Some DI32
      else if String.eqb t "int64" then Some DI64 else if String.eqb t "float32" then Some DF32
      else if String.eqb t "float64" then Some DF64 else None
  | _ => None end.

Definition get_attr (v : val) : option vattr :=
  match v with
  | VL [VS name; len; ndim; k; VL rows] =>
      match getN len, getN ndim, getN k, all_some (map getNs rows) with
      | Some len, Some ndim, Some k, Some rows =>
          Some {| at_name := name; at_len := len; at_ndim := ndim; at_k := k; at_rows := rows |}
      | _, _, _, _ => None end
  | _ => None end.

Definition vline_val (l : vline) : val :=
  match l with
  | LMagic => VL [VT "magic"]
  | LTitle s => VL [VT "title"; VS s]
  | LAscii => VL [VT "ascii"]
  | LDataset => VL [VT "dataset"]
  | LPoints n => VL [VT "points"; vN n]
  | LPolygons m n4 => VL [VT "polygons"; vN m; vN n4]
  | LPointData n => VL [VT "point_data"; vN n]
  | LScalars name k => VL [VT "scalars"; VS name; match k with Some k => vN k | None => VT "none" end]
  | LLookup => VL [VT "lookup"]
  | LFloats bs => VL [VT "floats"; vNs bs]
  | LInts zs => VL [VT "ints"; vZs zs]
  end.

Definition vpattr (a : pattr) : val := VL [VS (pa_name a); vN (pa_k a); VL (map vNs (pa_rows a))].
Definition vvtk (m : vtk_mesh) : val :=
  VL [VL (map vNs (vm_points m)); v3Ns (vm_tris m); VL (map vpattr (vm_attrs m))].

Definition get_rows (v : val) : option (list (list (list N))) :=
  match v with
  | VL rows => all_some (map (fun r => match r with VL cells => all_some (map getS cells) | _ => None end) rows)
  | _ => None end.
Definition vfile (f : file) : val := VL [VS (fst f); VS (snd f)].

Definition d_c17 (op : string) (a : val) : option val :=
  match op, a with
  | "mesh_write", VL [dt; v; t] =>
      match get_dtype dt, get3Ns v, get3Ns t with
      | Some dt, Some v, Some t =>
          Some (VL [v_outcome VS (write_mesh dt v t); VS (written_before_type_error v);
                    vbool (mesh_wf v t)])
      | _, _, _ => Some bad end
  | "mesh_precheck", VL [a; b; c] =>
      match getN a, getN b, getN c with
      | Some a, Some b, Some c => Some (v_outcome (fun _ => VL []) (writer_precheck a b c))
      | _, _, _ => Some bad end
  | "mesh_read", VS b =>
      Some (VL [v_outcome vmesh (read_mesh b); vopt vmesh (spec_parse b)])
  | "affine", VL [VZ rows; last; VL [r1; r2; r3; t]; vs; ts] =>
      match getZs last, get3Z r1, get3Z r2, get3Z r3, get3Z t, get3Zs vs, get3Zs ts with
      | Some last, Some r1, Some r2, Some r3, Some t, Some vs, Some ts =>
          let m := Build_affine r1 r2 r3 t in
          let res := affine_transform_mesh rows last m vs ts in
          Some (VL [v_outcome (fun p => VL [v3Zs (fst p); v3Zs (snd p)]) res;
                    VZ (zdetM m); VZ (signed_volume6 vs ts);
                    match res with
                    | Ok (vs', ts') => VZ (signed_volume6 vs' ts')
                    | _ => VT "none" end;
                    v3Zs (mm_to_nm vs)])
      | _, _, _, _, _, _, _ => Some bad end
  | "vtk_write", VL [VS title; VS version; vs; ts; VL attrs] =>
      match get3Ns vs, get3Zs ts, all_some (map get_attr attrs) with
      | Some vs, Some ts, Some attrs =>
          let res := vtk_write title version vs ts attrs in
          Some (VL [v_outcome (fun ls => VL (map vline_val ls)) res;
                    vbool (vtk_guard title version vs ts attrs);
                    match res with
                    | Ok ls => vopt vvtk (vtk_grammar ls)
                    | _ => VT "none" end;
                    vvtk (expected_mesh vs ts attrs)])
      | _, _, _ => Some bad end
  | "links", VL [VS mesh_dir; nc; VL existing; rows] =>
      match getB nc, all_some (map getS existing), get_rows rows with
      | Some nc, Some existing, Some rows =>
          let '(files, res) := make_links mesh_dir nc existing rows [] in
          Some (VL [VL (map vfile files); v_outcome (fun _ => VL []) res])
      | _, _, _ => Some bad end
  | "links_read", VS b => Some (vopt (fun l => VL (map VS l)) (spec_read_links b))
  | "py_int", VS b => Some (vopt VZ (py_int b))
  | _, _ => None
  end.
