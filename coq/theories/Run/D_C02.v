(* Dispatch fragment for C02 / C10: chunk codecs.
   Arrays travel as ( (C Z Y X) xBYTES ) with little-endian items. *)
From Coq Require Import NArith ZArith List String Bool.
From NGS Require Import Val Ints Words Arr4 CSegEncode CSegSpec CSegDecode RawCodec JpegGlue.
Import ListNotations.
Open Scope string_scope.

Definition get_dt (v : val) : option dtype :=
  match v with
  | VZ 32%Z => Some U32
  | VZ 64%Z => Some U64
  | _ => None
  end.

Definition get_geom (v : val) : option geom :=
  match getNs v with
  | Some [bx; by_; bz] => Some {| g_bx := bx; g_by := by_; g_bz := bz |}
  | _ => None
  end.

Definition get_arr (isz : N) (shape : val) (data : val) : option arr4 :=
  match getNs shape, data with
  | Some [c; z; y; x], VS b =>
      Some {| a_c := c; a_z := z; a_y := y; a_x := x;
              a_data := items_of (N.to_nat isz) (N.to_nat (lenN b / isz)) b |}
  | _, _ => None
  end.

Definition v_arr (isz : N) (a : arr4) : val :=
  VL [vNs [a_c a; a_z a; a_y a; a_x a];
      VS (flat_map (le_bytes (N.to_nat isz)) (a_data a))].

Fixpoint all_someN (l : list (option N)) : option (list N) :=
  match l with
  | [] => Some []
  | None :: _ => None
  | Some a :: r => match all_someN r with Some r' => Some (a :: r') | None => None end
  end.

(* whole-array specification decode: None as soon as one voxel is undefined *)
Definition spec_decode_all (dt : dtype) (buf : list N) (C Z Y X bx by_ bz : N) : option (list N) :=
  all_someN
    (flat_map (fun c => flat_map (fun z => flat_map (fun y =>
       map (fun x => spec_value dt buf Y X bx by_ bz c z y x) (range X)) (range Y)) (range Z))
       (range C)).

Definition get_pil (v : val) : option pil_result :=
  match v with
  | VT "openfail" => Some OpenFail
  | VL [VS mode; w; h; VT "loadfail"] =>
      match getN w, getN h with
      | Some w, Some h => Some (Opened mode w h LoadFail)
      | _, _ => None end
  | VL [VS mode; w; h; bands; VS px] =>
      match getN w, getN h, getN bands with
      | Some w, Some h, Some bands => Some (Opened mode w h (Pixels bands px))
      | _, _, _ => None end
  | _ => None
  end.

Definition d_c02 (op : string) (a : val) : option val :=
  match op, a with
  | "cseg_encode", VL [dt; nc; blk; shape; data] =>
      match get_dt dt, getN nc, get_geom blk with
      | Some dt, Some nc, Some g =>
          match get_arr (itemsize dt) shape data with
          | Some arr => Some (v_outcome VS (cseg_encode dt nc g arr))
          | None => Some bad end
      | _, _, _ => Some bad end
  | "cseg_decode", VL [dt; nc; blk; csz; VS buf] =>
      match get_dt dt, getN nc, get_geom blk, getNs csz with
      | Some dt, Some nc, Some g, Some [cx; cy; cz] =>
          Some (v_outcome (v_arr (itemsize dt)) (cseg_decode dt nc g cx cy cz buf))
      | _, _, _, _ => Some bad end
  | "cseg_spec", VL [dt; shape; blk; VS buf] =>
      match get_dt dt, getNs shape, get_geom blk with
      | Some dt, Some [c; z; y; x], Some g =>
          Some (VL [vbool (well_formed dt buf c z y x (g_bx g) (g_by g) (g_bz g));
                    match spec_decode_all dt buf c z y x (g_bx g) (g_by g) (g_bz g) with
                    | Some vals => VS (flat_map (le_bytes (N.to_nat (itemsize dt))) vals)
                    | None => VT "none"
                    end])
      | _, _, _ => Some bad end
  | "cseg_wf", VL [dt; shape; blk; VS buf] =>
      match get_dt dt, getNs shape, get_geom blk with
      | Some dt, Some [c; z; y; x], Some g =>
          Some (vbool (well_formed dt buf c z y x (g_bx g) (g_by g) (g_bz g)))
      | _, _, _ => Some bad end
  | "raw_encode", VL [isz; nc; shape; data] =>
      match getN isz, getN nc with
      | Some isz, Some nc =>
          match get_arr isz shape data with
          | Some arr => Some (v_outcome VS (raw_encode isz nc arr))
          | None => Some bad end
      | _, _ => Some bad end
  | "raw_decode", VL [isz; nc; csz; VS buf] =>
      match getN isz, getN nc, getNs csz with
      | Some isz, Some nc, Some [cx; cy; cz] =>
          Some (v_outcome (v_arr isz) (raw_decode isz nc cx cy cz buf))
      | _, _, _ => Some bad end
  | "jpeg_decode", VL [nc; csz; pil] =>
      match getN nc, getNs csz, get_pil pil with
      | Some nc, Some [cx; cy; cz], Some r =>
          Some (v_outcome (v_arr 1) (jpeg_decode nc cx cy cz r))
      | _, _, _ => Some bad end
  | _, _ => None
  end.
