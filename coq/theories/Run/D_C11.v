(* Dispatch fragment for C11 (dtype conversion) and C07 (downscalers):
   op name + argument value -> reply.  Floats travel as raw IEEE bit patterns
   (integers), never as text. *)
From Coq Require Import ZArith QArith List String.
From Coq Require Import SpecFloat.
From NGS Require Import Val Ints DType FloatModel Convert Downscale.
Import ListNotations.
Close Scope Q_scope.
Open Scope string_scope.

Definition getD (v : val) : option dtype :=
  match v with VT s => dtype_of_name s | _ => None end.

Definition getQ (v : val) : option Q :=
  match v with
  | VL [VZ n; VZ (Zpos d)] => Some (Qmake n d)
  | _ => None
  end.
Definition getQs (v : val) : option (list Q) :=
  match v with VL l => all_some (map getQ l) | _ => None end.

Definition getShape (v : val) : option (nat * nat * nat * nat) :=
  match v with
  | VL [VZ c; VZ z; VZ y; VZ x] =>
      if ((0 <=? c) && (0 <=? z) && (0 <=? y) && (0 <=? x))%Z
      then Some (Z.to_nat c, Z.to_nat z, Z.to_nat y, Z.to_nat x) else None
  | _ => None
  end.

Definition shape_of {A} (a : arr4 A) : val :=
  let v := hd [] a in let p := hd [] v in let r := hd [] p in
  VL [vnat (List.length a); vnat (List.length v); vnat (List.length p); vnat (List.length r)].

Definition v_arr {A} (enc : A -> Z) (a : arr4 A) : val :=
  VL [shape_of a; vZs (map enc (flatten a))].

Definition d_tables : val :=
  VL (flat_map (fun a => map (fun b =>
        VL [VT (dtype_name a); VT (dtype_name b); VT (dtype_name (promote a b));
            vbool (can_cast_safe a b)]) all_dtypes) all_dtypes).

Definition v_optZ (o : option Z) : val :=
  match o with Some z => VL [VZ z] | None => VL [] end.

Definition d_c11 (op : string) (a : val) : option val :=
  match op, a with
  | "tables", _ => Some d_tables
  | "dtype_info", VT s =>
      match dtype_of_name s with
      | Some d => Some (VL [vbool (is_int d); VZ (imin d); VZ (imax d)])
      | None => Some bad end
  | "convert", VL [i; o; pres; wr; nat_; vals] =>
      match getD i, getD o, getB pres, getB wr, getB nat_, getZs vals with
      | Some i, Some o, Some pres, Some wr, Some nat_, Some vals =>
          let '(res, after) := convert i o pres wr nat_ (map (num_decode i) vals) in
          Some (VL [vZs (map (num_encode o) res); vZs (map (num_encode i) after);
                    vbool (aliased i o pres wr nat_);
                    VT (dtype_name (work_dtype i o)); vbool (round_flag i o); vbool (clip_flag i o);
                    vbool (saturate_top i o)])
      | _, _, _, _, _, _ => Some bad end
  (* byte orders of the chunk and of the dtype object given to the factory *)
  | "convert_bo", VL [i; o; pres; wr; cn; fn; vals] =>
      match getD i, getD o, getB pres, getB wr, getB cn, getB fn, getZs vals with
      | Some i, Some o, Some pres, Some wr, Some cn, Some fn, Some vals =>
          let '(res, after) := convert_bo i o pres wr cn fn (map (num_decode i) vals) in
          Some (VL [vZs (map (num_encode o) res); vZs (map (num_encode i) after);
                    vbool (aliased i o pres wr (order_matches i o cn fn))])
      | _, _, _, _, _, _, _ => Some bad end
  (* with the dtype assertion: chunk dtype, then as "convert" *)
  | "convert_chk", VL [cd; i; o; pres; wr; nat_; vals] =>
      match getD cd, getD i, getD o, getB pres, getB wr, getB nat_, getZs vals with
      | Some cd, Some i, Some o, Some pres, Some wr, Some nat_, Some vals =>
          Some (v_outcome (fun ra => VL [vZs (map (num_encode o) (fst ra)); vZs (map (num_encode cd) (snd ra))])
                  (convert_checked cd i o pres wr nat_ (map (num_decode cd) vals)))
      | _, _, _, _, _, _, _ => Some bad end
  (* guard of the remaining finding, per raw input value: (float32_overflow) *)
  | "guards", VL [i; o; vals] =>
      match getD i, getD o, getZs vals with
      | Some i, Some o, Some vals =>
          Some (VL (map (fun z => let v := num_decode i z in
                                  VL [vbool (float32_overflow_guard i o v)]) vals))
      | _, _, _ => Some bad end
  | "avg_guard", VL [dt; data] =>
      match getD dt, getZs data with
      | Some dt, Some data => Some (vbool (avg_uint64_guard dt [[[data]]]))
      | _, _ => Some bad end
  (* oracle: nearest representable, saturating, for exact rationals *)
  | "nearest_sat", VL [o; qs] =>
      match getD o, getQs qs with
      | Some o, Some qs => Some (vZs (map (fun q => num_encode o (nearest_sat o q)) qs))
      | _, _ => Some bad end
  (* oracle applied to raw input values: (finite?, nearest_sat of the exact value) *)
  | "nearest_sat_of", VL [i; o; vals] =>
      match getD i, getD o, getZs vals with
      | Some i, Some o, Some vals =>
          Some (VL (map (fun z => let v := num_decode i z in
                                  VL [vbool (num_finite v);
                                      VZ (num_encode o (nearest_sat o (num2Q v)))]) vals))
      | _, _, _ => Some bad end
  | "stride", VL [fs; sh; data] =>
      match getZs fs, getShape sh, getZs data with
      | Some fs, Some (c, z, y, x), Some data =>
          Some (v_outcome (v_arr (fun v => v)) (stride_model fs (unflatten c z y x data)))
      | _, _, _ => Some bad end
  | "majority", VL [fs; sh; data] =>
      match getZs fs, getShape sh, getZs data with
      | Some fs, Some (c, z, y, x), Some data =>
          Some (v_outcome (v_arr (fun v => v)) (majority_model fs z y x (unflatten c z y x data)))
      | _, _, _ => Some bad end
  | "average", VL [dt; VL outside; fs; sh; data] =>
      match getD dt, getZs (VL outside), getZs fs, getShape sh, getZs data with
      | Some dt, Some outside, Some fs, Some (c, z, y, x), Some data =>
          let o := match outside with b :: _ => Some (of_bits b64 b) | [] => None end in
          Some (v_outcome (v_arr (num_encode dt))
                  (avg_model dt o fs (unflatten c z y x (map (num_decode dt) data))))
      | _, _, _, _, _ => Some bad end
  (* specification functions (oracles) *)
  | "stride_spec", VL [fs; sh; data] =>
      match getZs fs, getShape sh, getZs data with
      | Some fs, Some (c, z, y, x), Some data =>
          Some (v_arr (fun v => v)
                  (stride_spec 0%Z (fac fs 0) (fac fs 1) (fac fs 2) c z y x (unflatten c z y x data)))
      | _, _, _ => Some bad end
  | "majority_spec", VL [fs; sh; data] =>
      match getZs fs, getShape sh, getZs data with
      | Some fs, Some (c, z, y, x), Some data =>
          Some (VL [vZs (map (fun o => match o with Some v => v | None => (-1)%Z end)
                    (flatten (majority_spec (fac fs 0) (fac fs 1) (fac fs 2) c z y x
                                            (unflatten c z y x data))))])
      | _, _, _ => Some bad end
  | "majority_ref", VL [data] =>
      match getZs data with
      | Some b => Some (v_optZ (majority_ref b))
      | None => Some bad end
  (* exact rational input values (num, den); outside: () or ((num den)) *)
  | "avg_spec", VL [dt; VL outside; fs; sh; data] =>
      match getD dt, getQs (VL outside), getZs fs, getShape sh, getQs data with
      | Some dt, Some outside, Some fs, Some (c, z, y, x), Some data =>
          let o := match outside with q :: _ => Some q | [] => None end in
          Some (v_arr (num_encode dt)
                  (avg_spec dt o (fac fs 0) (fac fs 1) (fac fs 2) c z y x (unflatten c z y x data)))
      | _, _, _, _, _ => Some bad end
  | "mean_rhe", VL [dt; qs] =>
      match getD dt, getQs qs with
      | Some dt, Some (q :: qs) => Some (VZ (num_encode dt (mean_rhe dt (q :: qs))))
      | _, _ => Some bad end
  (* exact value of a raw element as a rational (finite?, num, den) *)
  | "exact", VL [dt; vals] =>
      match getD dt, getZs vals with
      | Some dt, Some vals =>
          Some (VL (map (fun z => let v := num_decode dt z in
                                  VL [vbool (num_finite v); VZ (Qnum (num2Q v));
                                      VZ (Zpos (Qden (num2Q v)))]) vals))
      | _, _ => Some bad end
  | _, _ => None
  end.
