(* Dispatch fragment for C20. *)
From Coq Require Import NArith ZArith List String.
From NGS Require Import Val Ints Readable.
Import ListNotations.
Open Scope string_scope.

Definition v_parse (o : option (N * N * N)) : val :=
  match o with Some (n, d, e) => VL [vN n; vN d; vN e] | None => VT "none" end.

Definition d_c20 (op : string) (a : val) : option val :=
  match op, a with
  | "readable", VL [c] =>
      match getN c with
      | Some c => let s := readable_count c in Some (VL [VS s; v_parse (parse_readable s)])
      | None => Some bad end
  | "parse_readable", VL [VS s] => Some (v_parse (parse_readable s))
  | "stats", VL [sz; cs; it; ch] =>
      match getNs sz, getNs cs, getN it, getN ch with
      | Some [sx; sy; sz_], Some [cx; cy; cz], Some it, Some ch =>
          Some (VL [VZ (stats_num_chunks (sx, sy, sz_) (cx, cy, cz));
                    VZ (stats_size_bytes (sx, sy, sz_) it ch)])
      | _, _, _, _ => Some bad end
  | "totals", VL rows =>       (* rows: [[chunks, bytes], ...] as printed per scale *)
      let get (r : val) : option (Z * Z) :=
        match r with VL [a; b] => match getZ a, getZ b with Some a, Some b => Some (a, b) | _, _ => None end
                   | _ => None end in
      match all_some (map get rows) with
      | Some rs => let t := stats_totals rs in Some (VL [VZ (fst t); VZ (snd t)])
      | None => Some bad end
  | "grid", VL [sz; cs] =>     (* enumerates the grid: small sizes only *)
      match getNs sz, getNs cs with
      | Some [sx; sy; sz_], Some [cx; cy; cz] =>
          Some (VL [vnat (List.length (grid_chunks (sx, sy, sz_) (cx, cy, cz)));
                    vN (fold_right N.add 0%N (map chunk_voxels (grid_chunks (sx, sy, sz_) (cx, cy, cz))))])
      | _, _ => Some bad end
  | _, _ => None
  end.
