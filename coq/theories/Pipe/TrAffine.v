(* transform.nifti_to_neuroglancer_transform, the transform and info assembled
   by volume_reader.nibabel_image_to_info (--generate-info), and
   transform.matrix_as_compact_urlsafe_json.

   The arithmetic is written over an arbitrary field (section Generic); the
   executable instance used by the harness is Q.  Voxel sizes are an INPUT
   (nibabel.affines.voxel_sizes uses a square root): the theorems hold for
   every non-zero triple, so whatever rounding nibabel commits there does not
   matter for the half-voxel relation. *)
From Coq Require Import NArith ZArith QArith List Bool Lia.
From NGS Require Import Val Ints MeLinks.
Import ListNotations.

Section Generic.
  Variable F : Type.
  Variables (fadd fmul fsub fdiv : F -> F -> F).
  Variable f1 : F.

  Local Infix "+" := fadd.
  Local Infix "*" := fmul.
  Local Infix "-" := fsub.
  Local Infix "/" := fdiv.

  Definition row4 : Type := (F * F * F * F)%type.
  Definition mat4 : Type := (row4 * row4 * row4 * row4)%type.
  Definition vec3 : Type := (F * F * F)%type.

  (* ret = array(m, copy); ret[:3, 3] -= dot(ret[:3, :3], 0.5 * voxel_size) *)
  Definition shift_row (half : F) (r : row4) (v : vec3) : row4 :=
    let '(a, b, c, t) := r in let '(v1, v2, v3) := v in
    (a, b, c, t - (a * (half * v1) + b * (half * v2) + c * (half * v3))).
  Definition nifti_to_ng (half : F) (m : mat4) (v : vec3) : mat4 :=
    let '(r1, r2, r3, r4) := m in
    (shift_row half r1 v, shift_row half r2 v, shift_row half r3 v, r4).

  (* nibabel_image_to_info:
       transform[:, j] = affine[:, j] / voxel_sizes[j]        (all four rows)
       transform[:3, 3] = affine[:3, 3] * 1000000 ; transform[3, 3] = 1
       resolution[j] = voxel_sizes[j] * 1000000               (via the info text)
       transform = nifti_to_neuroglancer_transform(transform, resolution) *)
  Definition scale_row (k : F) (r : row4) (s : vec3) : row4 :=
    let '(a, b, c, t) := r in let '(s1, s2, s3) := s in (a / s1, b / s2, c / s3, t * k).
  Definition last_row (r : row4) (s : vec3) : row4 :=
    let '(a, b, c, _) := r in let '(s1, s2, s3) := s in (a / s1, b / s2, c / s3, f1).
  Definition resolution_of (k : F) (s : vec3) : vec3 :=
    let '(s1, s2, s3) := s in (s1 * k, s2 * k, s3 * k).
  Definition info_transform (k half : F) (a : mat4) (s : vec3) : mat4 :=
    let '(r1, r2, r3, r4) := a in
    nifti_to_ng half (scale_row k r1 s, scale_row k r2 s, scale_row k r3 s, last_row r4 s)
                (resolution_of k s).

  (* a row applied to a point in homogeneous coordinates (x, y, z, 1) *)
  Definition row_at (r : row4) (p : vec3) : F :=
    let '(a, b, c, t) := r in let '(x, y, z) := p in a * x + b * y + c * z + t.
  (* Neuroglancer's corner-based coordinate, in nm, of the centre of voxel i *)
  Definition centre_nm (k half : F) (s : vec3) (i : vec3) : vec3 :=
    let '(s1, s2, s3) := s in let '(i1, i2, i3) := i in
    ((i1 + half) * (s1 * k), (i2 + half) * (s2 * k), (i3 + half) * (s3 * k)).
End Generic.

(* ---------- executable instance over Q ---------- *)
Definition qrow := row4 Q.
Definition qmat := mat4 Q.
Definition million : Q := 1000000 # 1.
Definition qhalf : Q := 1 # 2.
Definition q_info_transform (a : qmat) (s : vec3 Q) : qmat :=
  info_transform Q Qplus Qmult Qminus Qdiv 1%Q million qhalf a s.
Definition q_nifti_to_ng (m : qmat) (v : vec3 Q) : qmat :=
  nifti_to_ng Q Qplus Qmult Qminus qhalf m v.
Definition qrow_red (r : qrow) : qrow :=
  let '(a, b, c, t) := r in (Qred a, Qred b, Qred c, Qred t).
Definition qmat_red (m : qmat) : qmat :=
  let '(r1, r2, r3, r4) := m in (qrow_red r1, qrow_red r2, qrow_red r3, qrow_red r4).

(* ---------- info assembly ---------- *)

(* dtype of proxy[0, 0, ...] as NumPy names it (after get_dtype has unpacked
   an (R, G, B) structured type to its first field) *)
Inductive np_dtype :=
| NUint8 | NUint16 | NUint32 | NUint64 | NInt8 | NInt16 | NInt32 | NInt64
| NFloat16 | NFloat32 | NFloat64 | NComplex64 | NComplex128 | NBool.

(* data_types.NG_DATA_TYPES *)
Definition is_ng_type (d : np_dtype) : bool :=
  match d with NUint8 | NUint16 | NUint32 | NUint64 | NFloat32 => true | _ => false end.

(* guessed "data_type" and the imperfect flag (exit status 4) *)
Definition guess_dtype (d : np_dtype) : np_dtype * bool :=
  if is_ng_type d then (d, false) else (NFloat32, true).

(* every value of type d is exactly representable in type g *)
Definition holds_exactly (d g : np_dtype) : bool :=
  match d, g with
  | NUint8, NUint8 | NUint16, NUint16 | NUint32, NUint32 | NUint64, NUint64 | NFloat32, NFloat32 => true
  | (NInt8 | NInt16 | NBool | NFloat16 | NUint8 | NUint16), NFloat32 => true   (* |v| <= 2^24 or narrower float *)
  | _, _ => false
  end.

Record shard_opts := { so_minishard : Z; so_shard : Z; so_preshift : Z; so_gzip : bool }.

Record info_fields := {
  if_num_channels : Z;
  if_data_type : np_dtype;
  if_size : list Z;
  if_resolution : list Q;
  if_sharding : option shard_opts;
  if_imperfect : bool
}.

Fixpoint split_comma (l cur : list N) : list (list N) :=
  match l with
  | [] => [rev cur]
  | c :: r => if (c =? 44)%N then rev cur :: split_comma r [] else split_comma r (c :: cur)
  end.

Definition two64z : Z := 18446744073709551616.

(* sharding.split(","), int() of the three parts, ShardSpec(...) and to_dict();
   every failure is re-raised as a plain Exception("Shard spec failed.") *)
Definition parse_sharding (s : list N) (gzip : bool) : outcome shard_opts :=
  match split_comma s [] with
  | [a; b; c] =>
      match py_int a, py_int b, py_int c with
      | Some m, Some sh, Some p =>
          if (m <? 0)%Z || (sh <? 0)%Z || (p <? 0)%Z then Crash RuntimeError
          else if (two64z <=? m)%Z || (two64z <=? sh)%Z || (two64z <=? p)%Z then Crash RuntimeError
          else Ok {| so_minishard := m; so_shard := sh; so_preshift := p; so_gzip := gzip |}
      | _, _, _ => Crash RuntimeError
      end
  | _ => Crash RuntimeError
  end.

(* shape: header shape, with 3 appended for RGB data *)
Definition info_assemble (shape : list Z) (is_rgb : bool) (d : np_dtype) (vs : list Q)
           (sharding : list N) (gzip : bool) : outcome info_fields :=
  let shape := if is_rgb then shape ++ [3%Z] else shape in
  let nch := match shape with _ :: _ :: _ :: c :: _ => c | _ => 1%Z end in
  let '(g, imperfect) := guess_dtype d in
  let base sh := {| if_num_channels := nch; if_data_type := g; if_size := firstn 3 shape;
                    if_resolution := map (fun v => Qred (v * million)) (firstn 3 vs);
                    if_sharding := sh; if_imperfect := imperfect |} in
  match sharding with
  | [] => Ok (base None)
  | _ => bind (parse_sharding sharding gzip) (fun so => Ok (base (Some so)))
  end.

(* ---------- matrix_as_compact_urlsafe_json ---------- *)

(* one entry, as the float-repr oracle describes it: the text str(x), and
   int(x) when x is finite and int(x) == x *)
Record jentry := { je_repr : list N; je_int : option Z }.

Definition ends_dot0 (s : list N) : bool :=
  match rev s with 48%N :: 46%N :: _ => true | _ => false end.

Definition entry_text (e : jentry) : list N :=
  match je_int e with
  | Some z => if ends_dot0 (je_repr e) then dec_of_Z z else je_repr e
  | None => je_repr e
  end.

Fixpoint join_with (sep : N) (l : list (list N)) : list N :=
  match l with
  | [] => []
  | [s] => s
  | s :: r => s ++ sep :: join_with sep r
  end.

Definition bracket (s : list N) : list N := 91%N :: s ++ [93%N].
Definition compact_json (m : list (list jentry)) : list N :=
  bracket (join_with 95%N (map (fun r => bracket (join_with 95%N (map entry_text r))) m)).

(* reading it back: '[' rows separated by '_' ']', a row being '[' tokens
   separated by '_' ']' *)
Inductive cmode := CStart | CRowStart | CTok (cur : list N) (row : list (list N)) | CAfterRow | CEnd.

Definition tok_char (c : N) : bool := negb ((c =? 95) || (c =? 91) || (c =? 93))%N.

Fixpoint compact_scan (l : list N) (m : cmode) (out : list (list (list N))) : option (list (list (list N))) :=
  match m, l with
  | CEnd, [] => Some (rev out)
  | CEnd, _ => None
  | _, [] => None
  | CStart, c :: r => if (c =? 91)%N then compact_scan r CRowStart out else None
  | CRowStart, c :: r =>
      if (c =? 91)%N then compact_scan r (CTok [] []) out
      else if (c =? 93)%N then match out with [] => compact_scan r CEnd out | _ => None end
      else None
  | CTok cur row, c :: r =>
      if (c =? 95)%N then match cur with [] => None | _ => compact_scan r (CTok [] (rev cur :: row)) out end
      else if (c =? 93)%N then
        match cur, row with
        | [], [] => compact_scan r CAfterRow ([] :: out)
        | [], _ => None
        | _, _ => compact_scan r CAfterRow (rev (rev cur :: row) :: out)
        end
      else if (c =? 91)%N then None
      else compact_scan r (CTok (c :: cur) row) out
  | CAfterRow, c :: r =>
      if (c =? 95)%N then
        match r with
        | c' :: r' => if (c' =? 91)%N then compact_scan r' (CTok [] []) out else None
        | [] => None end
      else if (c =? 93)%N then compact_scan r CEnd out
      else None
  end.

Definition compact_parse (b : list N) : option (list (list (list N))) := compact_scan b CStart [].

Definition clean_token (s : list N) : bool :=
  match s with [] => false | _ => forallb tok_char s end.
