(* Proofs for Properties/C15.v. *)
From Coq Require Import NArith ZArith List Bool Lia.
From NGS Require Import Val Ints SlSlices.
From NGSGen Require Import Tables.
Import ListNotations.
Open Scope Z_scope.

(* ================= the regenerated tables ================= *)

Definition code_params (code : list N) : option (list Z * list Z) :=
  match map_outcome (fun a => lookup a axis_permutation_for_ras) code,
        map_outcome (fun a => lookup a axis_inversion_for_ras) code with
  | Ok p, Ok inv => Some (p, inv)
  | _, _ => None
  end.

Definition six_perms : list (list Z) :=
  [[0; 1; 2]; [0; 2; 1]; [1; 0; 2]; [1; 2; 0]; [2; 0; 1]; [2; 1; 0]].
Definition zlist_eqb (a b : list Z) : bool :=
  (length a =? length b)%nat && forallb (fun '(x, y) => x =? y) (combine a b).
Definition is_sign (v : Z) : bool := (v =? 1) || (v =? -1).

(* a code denotes a signed permutation, and its letters mean what the
   specification says they mean *)
Definition code_ok (code : list N) : bool :=
  match code, code_params code with
  | [l0; l1; l2], Some (p, inv) =>
      existsb (zlist_eqb p) six_perms && forallb is_sign inv && (length inv =? 3)%nat &&
      forallb (fun '(l, (pk, ik)) =>
                 match letter_axis l with
                 | Some a => (Z.of_nat a =? pk) && (if letter_positive l then ik =? 1 else ik =? -1)
                 | None => false end)
              (combine code (combine p inv))
  | _, _ => false
  end.

Fixpoint nodup_codes (l : list (list N)) : bool :=
  match l with
  | [] => true
  | a :: r => negb (existsb (code_eqb a) r) && nodup_codes r
  end.

Lemma tables_check :
  forallb code_ok possible_axis_orientations = true /\
  length possible_axis_orientations = 48%nat /\ nodup_codes possible_axis_orientations = true.
Proof. repeat split; vm_compute; reflexivity. Qed.

Lemma tables_signed_perm_lemma : forall code, In code possible_axis_orientations ->
  exists l0 l1 l2 p inv, code = [l0; l1; l2] /\ code_params code = Some (p, inv) /\
    In p six_perms /\ length inv = 3%nat /\ (forall v, In v inv -> v = 1 \/ v = -1).
Proof.
  intros code Hin. destruct tables_check as [Hall _].
  rewrite forallb_forall in Hall. specialize (Hall code Hin).
  unfold code_ok in Hall.
  destruct code as [|l0 [|l1 [|l2 [|? ?]]]]; try discriminate.
  destruct (code_params [l0; l1; l2]) as [[p inv]|]; [|discriminate].
  apply andb_prop in Hall as [Hall _]. apply andb_prop in Hall as [Hall Hlen].
  apply andb_prop in Hall as [Hp Hs].
  exists l0, l1, l2, p, inv. split; [reflexivity|]. split; [reflexivity|]. split.
  - apply existsb_exists in Hp as (q & Hq & He). unfold zlist_eqb in He.
    assert (p = q) as ->; [|exact Hq].
    clear -Hq He. unfold six_perms in Hq. cbn [In] in Hq.
    destruct p as [|a [|b [|c [|? ?]]]];
      repeat (destruct Hq as [<-|Hq]; [cbn in He; try discriminate|]); try contradiction;
      repeat (apply andb_prop in He as [? He]); repeat match goal with H : (_ =? _) = true |- _ => apply Z.eqb_eq in H end;
      subst; try reflexivity; try discriminate.
  - split; [apply Nat.eqb_eq; exact Hlen|].
    intros v Hv. rewrite forallb_forall in Hs. specialize (Hs v Hv). unfold is_sign in Hs.
    apply orb_prop in Hs as [H|H]; apply Z.eqb_eq in H; auto.
Qed.

(* utils.invert_permutation really inverts every permutation the tables yield,
   and utils.permute picks the listed elements *)
Lemma invert_permutation_six : forall p, In p six_perms ->
  exists q, invert_permutation p = Ok q /\
    forall k, (k < 3)%nat -> nth (Z.to_nat (nth k p 0)) q (-1) = Z.of_nat k.
Proof.
  intros p Hp. unfold six_perms in Hp. cbn [In] in Hp.
  repeat (destruct Hp as [<-|Hp];
          [eexists; split; [vm_compute; reflexivity|];
           intros [|[|[|k]]] Hk; try reflexivity; lia|]).
  contradiction.
Qed.

Lemma permute_three : forall {A} (a b c : A) p, In p six_perms ->
  exists x y z, permute [a; b; c] p = Ok [x; y; z] /\
    forall k d, (k < 3)%nat -> nth k [x; y; z] d = nth (Z.to_nat (nth k p 0)) [a; b; c] d.
Proof.
  intros A a b c p Hp. unfold six_perms in Hp. cbn [In] in Hp.
  repeat (destruct Hp as [<-|Hp];
          [do 3 eexists; split; [reflexivity|];
           intros [|[|[|k]]] d Hk; try reflexivity; lia|]).
  contradiction.
Qed.

(* ================= Python slices ================= *)

Lemma zrange_length : forall a n, length (zrange a n) = Z.to_nat n.
Proof. intros. unfold zrange. rewrite map_length, seq_length. reflexivity. Qed.

Lemma zrange_nonpos : forall a n, n <= 0 -> zrange a n = [].
Proof. intros a n H. unfold zrange. replace (Z.to_nat n) with 0%nat by lia. reflexivity. Qed.

Lemma in_zrange : forall a n i, In i (zrange a n) <-> a <= i < a + n.
Proof.
  intros a n i. unfold zrange. rewrite in_map_iff. split.
  - intros (k & <- & Hk). apply in_seq in Hk. lia.
  - intro H. exists (Z.to_nat (i - a)). split; [lia|]. apply in_seq. lia.
Qed.

Lemma nth_error_zrange : forall a n i, 0 <= i < n -> nth_error (zrange a n) (Z.to_nat i) = Some (a + i).
Proof.
  intros a n i H. unfold zrange.
  rewrite nth_error_map, nth_error_nth' with (d := 0%nat) by (rewrite seq_length; lia).
  rewrite seq_nth by lia. cbn. f_equal. lia.
Qed.

Lemma slice_forward : forall len a b, 0 <= a -> a <= b -> b <= len ->
  slice_indices len a b 1 = zrange a (b - a).
Proof.
  intros len a b Ha Hab Hb. unfold slice_indices, adjust_bound. cbn [Z.eqb Z.ltb Z.compare].
  destruct (Z.ltb_spec a 0); [lia|]. destruct (Z.ltb_spec b 0); [lia|].
  destruct (Z.leb_spec len a), (Z.leb_spec len b); try reflexivity; f_equal; lia.
Qed.

(* the defect: for the last group of a reversed slice axis the stop is -1,
   which Python reads as len - 1, and nothing is selected -- whatever the
   number of slices and the chunk depth *)
Lemma reversed_last_group_empty_lemma : forall n d, 0 < n -> 0 < d ->
  group_sel n n d (-1) ((n - 1) / d) = [].
Proof.
  intros n d Hn Hd. unfold group_sel. cbn [Z.eqb].
  set (g := (n - 1) / d).
  assert (Hg1 : d * g <= n - 1) by (apply Z.mul_div_le; lia).
  assert (Hg2 : n - 1 < d * (g + 1)).
  { pose proof (Z.mod_pos_bound (n - 1) d Hd). pose proof (Z.div_mod (n - 1) d ltac:(lia)). subst g. lia. }
  replace (Z.min (d * (g + 1)) n) with n by lia.
  replace (n - n - 1) with (-1) by lia.
  unfold slice_indices, adjust_bound. cbn [Z.eqb Z.ltb Z.compare].
  destruct (Z.ltb_spec (n - d * g - 1) 0); [lia|].
  destruct (Z.leb_spec n (n - d * g - 1)); [lia|].
  destruct (Z.ltb_spec (-1 + n) 0); [lia|].
  cbn. apply f_equal with (f := map (fun i => n - d * g - 1 - i)).
  apply zrange_nonpos. lia.
Qed.

(* earlier groups of a reversed axis are read in the intended (reversed) order *)
Lemma reversed_inner_group_lemma : forall n d g, 0 < d -> 0 <= g -> d * (g + 1) < n ->
  group_sel n n d (-1) g = map (fun i => n - 1 - d * g - i) (zrange 0 d).
Proof.
  intros n d g Hd Hg Hlt. unfold group_sel. cbn [Z.eqb].
  replace (Z.min (d * (g + 1)) n) with (d * (g + 1)) by lia.
  unfold slice_indices, adjust_bound. cbn [Z.eqb Z.ltb Z.compare].
  destruct (Z.ltb_spec (n - d * g - 1) 0); [nia|].
  destruct (Z.leb_spec n (n - d * g - 1)); [nia|].
  destruct (Z.ltb_spec (n - d * (g + 1) - 1) 0); [nia|].
  destruct (Z.leb_spec n (n - d * (g + 1) - 1)); [nia|].
  cbn. replace (n - d * g - 1 - (n - d * (g + 1) - 1)) with d by lia.
  apply map_ext. intro i. lia.
Qed.
