(* Proofs for Properties/C15.v. *)
From Coq Require Import NArith ZArith List Bool Lia.
From NGS Require Import Val Ints SlSlices.
From NGSGen Require Import Tables.
Import ListNotations.
Open Scope Z_scope.

(* ================= the regenerated tables ================= *)

Definition code_params (code : list N) : option (list Z * list Z) :=
  match map_outcome (fun a => lookup a axis_permutation_for_ras) code,
        map_outcome (fun a => lookup a axis_inversion_for_ras) code with
  | Ok p, Ok inv => Some (p, inv)
  | _, _ => None
  end.

Definition six_perms : list (list Z) :=
  [[0; 1; 2]; [0; 2; 1]; [1; 0; 2]; [1; 2; 0]; [2; 0; 1]; [2; 1; 0]].
Definition zlist_eqb (a b : list Z) : bool :=
  (length a =? length b)%nat && forallb (fun '(x, y) => x =? y) (combine a b).
Definition is_sign (v : Z) : bool := (v =? 1) || (v =? -1).

(* a code denotes a signed permutation, and its letters mean what the
   specification says they mean *)
Definition code_ok (code : list N) : bool :=
  match code, code_params code with
  | [l0; l1; l2], Some (p, inv) =>
      existsb (zlist_eqb p) six_perms && forallb is_sign inv && (length inv =? 3)%nat &&
      forallb (fun '(l, (pk, ik)) =>
                 match letter_axis l with
                 | Some a => (Z.of_nat a =? pk) && (if letter_positive l then ik =? 1 else ik =? -1)
                 | None => false end)
              (combine code (combine p inv))
  | _, _ => false
  end.

Fixpoint nodup_codes (l : list (list N)) : bool :=
  match l with
  | [] => true
  | a :: r => negb (existsb (code_eqb a) r) && nodup_codes r
  end.

Lemma tables_check :
  forallb code_ok possible_axis_orientations = true /\
  length possible_axis_orientations = 48%nat /\ nodup_codes possible_axis_orientations = true.
Proof. repeat split; vm_compute; reflexivity. Qed.

Lemma tables_signed_perm_lemma : forall code, In code possible_axis_orientations ->
  exists l0 l1 l2 p inv, code = [l0; l1; l2] /\ code_params code = Some (p, inv) /\
    In p six_perms /\ length inv = 3%nat /\ (forall v, In v inv -> v = 1 \/ v = -1).
Proof.
  intros code Hin. destruct tables_check as [Hall _].
  rewrite forallb_forall in Hall. specialize (Hall code Hin).
  unfold code_ok in Hall.
  destruct code as [|l0 [|l1 [|l2 [|? ?]]]]; try discriminate.
  destruct (code_params [l0; l1; l2]) as [[p inv]|]; [|discriminate].
  apply andb_prop in Hall as [Hall _]. apply andb_prop in Hall as [Hall Hlen].
  apply andb_prop in Hall as [Hp Hs].
  exists l0, l1, l2, p, inv. split; [reflexivity|]. split; [reflexivity|]. split.
  - apply existsb_exists in Hp as (q & Hq & He). unfold zlist_eqb in He.
    assert (p = q) as ->; [|exact Hq].
    clear -Hq He. unfold six_perms in Hq. cbn [In] in Hq.
    destruct p as [|a [|b [|c [|? ?]]]];
      repeat (destruct Hq as [<-|Hq]; [cbn in He; try discriminate|]); try contradiction;
      repeat (apply andb_prop in He as [? He]); repeat match goal with H : (_ =? _) = true |- _ => apply Z.eqb_eq in H end;
      subst; try reflexivity; try discriminate.
  - split; [apply Nat.eqb_eq; exact Hlen|].
    intros v Hv. rewrite forallb_forall in Hs. specialize (Hs v Hv). unfold is_sign in Hs.
    apply orb_prop in Hs as [H|H]; apply Z.eqb_eq in H; auto.
Qed.

(* utils.invert_permutation really inverts every permutation the tables yield,
   and utils.permute picks the listed elements *)
Lemma invert_permutation_six : forall p, In p six_perms ->
  exists q, invert_permutation p = Ok q /\
    forall k, (k < 3)%nat -> nth (Z.to_nat (nth k p 0)) q (-1) = Z.of_nat k.
Proof.
  intros p Hp. unfold six_perms in Hp. cbn [In] in Hp.
  repeat (destruct Hp as [<-|Hp];
          [eexists; split; [vm_compute; reflexivity|];
           intros [|[|[|k]]] Hk; try reflexivity; lia|]).
  contradiction.
Qed.

Lemma permute_three : forall {A} (a b c : A) p, In p six_perms ->
  exists x y z, permute [a; b; c] p = Ok [x; y; z] /\
    forall k d, (k < 3)%nat -> nth k [x; y; z] d = nth (Z.to_nat (nth k p 0)) [a; b; c] d.
Proof.
  intros A a b c p Hp. unfold six_perms in Hp. cbn [In] in Hp.
  repeat (destruct Hp as [<-|Hp];
          [do 3 eexists; split; [reflexivity|];
           intros [|[|[|k]]] d Hk; try reflexivity; lia|]).
  contradiction.
Qed.

(* ================= Python slices ================= *)

Lemma zrange_length : forall a n, length (zrange a n) = Z.to_nat n.
Proof. intros. unfold zrange. rewrite map_length, seq_length. reflexivity. Qed.

Lemma zrange_nonpos : forall a n, n <= 0 -> zrange a n = [].
Proof. intros a n H. unfold zrange. replace (Z.to_nat n) with 0%nat by lia. reflexivity. Qed.

Lemma in_zrange : forall a n i, In i (zrange a n) <-> a <= i < a + n.
Proof.
  intros a n i. unfold zrange. rewrite in_map_iff. split.
  - intros (k & <- & Hk). apply in_seq in Hk. lia.
  - intro H. exists (Z.to_nat (i - a)). split; [lia|]. apply in_seq. lia.
Qed.

Lemma nth_error_zrange : forall a n i, 0 <= i < n -> nth_error (zrange a n) (Z.to_nat i) = Some (a + i).
Proof.
  intros a n i H. unfold zrange.
  rewrite nth_error_map, nth_error_nth' with (d := 0%nat) by (rewrite seq_length; lia).
  rewrite seq_nth by lia. cbn. f_equal. lia.
Qed.

Lemma adjust_forward : forall len b, 0 <= b <= len -> adjust_bound len 1 b = b.
Proof.
  intros len b H. unfold adjust_bound. change (1 <? 0) with false. cbv iota.
  destruct (Z.ltb_spec b 0); [lia|]. destruct (Z.leb_spec len b); lia.
Qed.

Lemma adjust_backward_in : forall len b, 0 <= b < len -> adjust_bound len (-1) b = b.
Proof.
  intros len b H. unfold adjust_bound.
  destruct (Z.ltb_spec b 0); [lia|]. destruct (Z.leb_spec len b); lia.
Qed.

(* a stop of -1 means "the last element" *)
Lemma adjust_backward_minus1 : forall len, 0 < len -> adjust_bound len (-1) (-1) = len - 1.
Proof.
  intros len H. unfold adjust_bound. change (-1 <? 0) with true. cbv iota.
  destruct (Z.ltb_spec (-1 + len) 0); lia.
Qed.

Lemma slice_forward : forall len a b, 0 <= a -> a <= b -> b <= len ->
  slice_indices len a b 1 = zrange a (b - a).
Proof.
  intros len a b Ha Hab Hb. unfold slice_indices.
  rewrite !adjust_forward by lia. reflexivity.
Qed.

(* the defect: for the last group of a reversed slice axis the stop is -1,
   which Python reads as len - 1, and nothing is selected -- whatever the
   number of slices and the chunk depth *)
Lemma reversed_last_group_empty_lemma : forall n d, 0 < n -> 0 < d ->
  group_sel n n d (-1) ((n - 1) / d) = [].
Proof.
  intros n d Hn Hd. unfold group_sel. cbn [Z.eqb].
  set (g := (n - 1) / d).
  assert (Hg1 : d * g <= n - 1) by (apply Z.mul_div_le; lia).
  assert (Hg0 : 0 <= d * g) by (apply Z.mul_nonneg_nonneg; [lia | apply Z.div_pos; lia]).
  assert (Hg2 : n - 1 < d * (g + 1)).
  { pose proof (Z.mod_pos_bound (n - 1) d Hd). pose proof (Z.div_mod (n - 1) d ltac:(lia)). subst g. lia. }
  replace (Z.min (d * (g + 1)) n) with n by lia.
  replace (n - n - 1) with (-1) by lia.
  unfold slice_indices. rewrite adjust_backward_minus1 by lia.
  rewrite adjust_backward_in by lia.
  change (-1 =? 1) with false. change (-1 =? -1) with true. cbv iota.
  rewrite zrange_nonpos by lia. reflexivity.
Qed.

(* earlier groups of a reversed axis are read in the intended (reversed) order *)
Lemma reversed_inner_group_lemma : forall n d g, 0 < d -> 0 <= g -> d * (g + 1) < n ->
  group_sel n n d (-1) g = map (fun i => n - 1 - d * g - i) (zrange 0 d).
Proof.
  intros n d g Hd Hg Hlt. unfold group_sel. cbn [Z.eqb].
  replace (Z.min (d * (g + 1)) n) with (d * (g + 1)) by lia.
  unfold slice_indices. rewrite !adjust_backward_in by nia.
  change (-1 =? 1) with false. change (-1 =? -1) with true. cbv iota.
  replace (n - d * g - 1 - (n - d * (g + 1) - 1)) with d by lia.
  apply map_ext. intro i. lia.
Qed.

(* ================= setup, for each of the 48 codes ================= *)

Lemma code_eqb_eq : forall a b, code_eqb a b = true -> a = b.
Proof.
  induction a as [|x a IH]; intros [|y b] H; try reflexivity; try discriminate.
  unfold code_eqb in H. cbn in H. apply andb_prop in H as [Hl Hf]. apply andb_prop in Hf as [Hx Hf].
  apply N.eqb_eq in Hx. subst y. f_equal. apply IH. unfold code_eqb. cbn in Hl. rewrite Hl, Hf. reflexivity.
Qed.

Lemma in_table : forall code, existsb (code_eqb code) possible_axis_orientations = true ->
  In code possible_axis_orientations.
Proof.
  intros code H. apply existsb_exists in H as (c & Hc & He). apply code_eqb_eq in He. subst c. exact Hc.
Qed.

Definition mkjob code sx sy sz cx cy cz nch dirs : job :=
  {| j_code := code; j_size := [sx; sy; sz]; j_chunk := [cx; cy; cz]; j_nch := nch; j_dirs := dirs |}.

Lemma setup_cases : forall code, In code possible_axis_orientations ->
  forall sx sy sz cx cy cz nch dirs,
  exists p0 p1 p2 i0 i1 i2 q w h n cw chh d,
    setup (mkjob code sx sy sz cx cy cz nch dirs) =
      Ok {| pr_p := (p0, p1, p2); pr_inv := (i0, i1, i2); pr_q := q;
            pr_isize := (w, h, n); pr_ichunk := (cw, chh, d) |} /\
    input_size_of code (sx, sy, sz) = Some (w, h, n) /\
    i2 = (if slice_axis_forward code then 1 else -1) /\
    In [p0; p1; p2] six_perms /\ invert_permutation [p0; p1; p2] = Ok q /\
    permute [sx; sy; sz] [p0; p1; p2] = Ok [w; h; n] /\
    permute [cx; cy; cz] [p0; p1; p2] = Ok [cw; chh; d] /\
    (i0 = 1 \/ i0 = -1) /\ (i1 = 1 \/ i1 = -1) /\
    (0 < sx -> 0 < sy -> 0 < sz -> 0 < w /\ 0 < h /\ 0 < n) /\
    (0 < cx -> 0 < cy -> 0 < cz -> 0 < cw /\ 0 < chh /\ 0 < d).
Proof.
  intros code Hin sx sy sz cx cy cz nch dirs.
  unfold possible_axis_orientations in Hin. cbn [In] in Hin.
  repeat (destruct Hin as [<-|Hin];
          [do 13 eexists; split; [vm_compute; reflexivity|];
           split; [reflexivity|]; split; [reflexivity|];
           split; [vm_compute; tauto|]; split; [vm_compute; reflexivity|];
           split; [reflexivity|]; split; [reflexivity|];
           split; [auto|]; split; [auto|]; split; intros; repeat split; assumption|]).
  contradiction.
Qed.

(* ================= reversed slice axis: the run never completes ================= *)

Lemma run_groups_ok_inv : forall pr j groups done ds,
  run_groups pr j groups done = (ds, Ok tt) ->
  forall g, In g groups ->
    let '(w, h, n) := pr_isize pr in
    let '(_, _, d) := pr_ichunk pr in
    let '(_, _, inv2) := pr_inv pr in
    check_dirs (j_dirs j) (map (fun dd => group_sel (d_files dd) n d inv2 g) (j_dirs j)) w h = Ok tt.
Proof.
  intros pr j groups. destruct pr as [[[p0 p1] p2] [[i0 i1] i2] q [[w h] n] [[cw chh] d]].
  induction groups as [|g0 r IH]; intros done ds H g Hin; [contradiction|].
  cbn [run_groups pr_isize pr_ichunk pr_inv] in H |- *.
  destruct (check_dirs (j_dirs j) (map (fun dd => group_sel (d_files dd) n d i2 g0) (j_dirs j)) w h)
    as [[]| | | | | |k] eqn:E; try (injection H as _ H; discriminate).
  destruct (negb (sumZl (map dir_channels (j_dirs j)) =? j_nch j)); [injection H as _ H; discriminate|].
  match type of H with (match ?wc with _ => _ end) = _ => destruct wc as [done' [[]| | | | | |k]] eqn:Ew end;
    try (injection H as _ H; discriminate).
  destruct Hin as [<-|Hin]; [exact E|].
  exact (IH _ _ H g Hin).
Qed.

Lemma job_wf_fields : forall j, job_wf j = true ->
  exists sx sy sz cx cy cz w h n d0 dr,
    j = mkjob (j_code j) sx sy sz cx cy cz (j_nch j) (d0 :: dr) /\
    0 < sx /\ 0 < sy /\ 0 < sz /\ 0 < cx /\ 0 < cy /\ 0 < cz /\
    input_size_of (j_code j) (sx, sy, sz) = Some (w, h, n) /\
    forallb (fun d => (d_files d =? n) && (d_w d =? w) && (d_h d =? h) && (0 <? dir_channels d)) (d0 :: dr) = true /\
    sumZl (map dir_channels (d0 :: dr)) = j_nch j.
Proof.
  intros [code size chunk nch dirs] H. unfold job_wf in H. cbn [j_size j_chunk j_code j_dirs j_nch] in *.
  destruct size as [|sx [|sy [|sz [|? ?]]]]; try discriminate.
  destruct chunk as [|cx [|cy [|cz [|? ?]]]]; try discriminate.
  repeat (apply andb_prop in H as [H ?]).
  destruct (input_size_of code (sx, sy, sz)) as [[[w h] n]|] eqn:E; [|discriminate].
  match goal with H1 : _ && _ && _ = true |- _ => apply andb_prop in H1 as [H1 Hs]; apply andb_prop in H1 as [Hd Hf] end.
  destruct dirs as [|d0 dr]; [discriminate|].
  exists sx, sy, sz, cx, cy, cz, w, h, n, d0, dr.
  repeat match goal with Hx : (0 <? _) = true |- _ => apply Z.ltb_lt in Hx end.
  apply Z.eqb_eq in Hs. repeat split; try assumption; reflexivity.
Qed.

Lemma reversed_never_completes_lemma : forall j,
  existsb (code_eqb (j_code j)) possible_axis_orientations = true ->
  slice_axis_forward (j_code j) = false -> job_wf j = true ->
  snd (run j) <> Ok tt.
Proof.
  intros j Hc Hrev Hwf.
  destruct (job_wf_fields j Hwf) as (sx & sy & sz & cx & cy & cz & w & h & n & d0 & dr & Ej & Hsx & Hsy & Hsz &
                                      Hcx & Hcy & Hcz & Eis & Hdirs & Hch).
  pose proof (in_table _ Hc) as Hin.
  destruct (setup_cases _ Hin sx sy sz cx cy cz (j_nch j) (d0 :: dr))
    as (p0 & p1 & p2 & i0 & i1 & i2 & q & w' & h' & n' & cw & chh & d & Es & Eis' & Ei2 & _ & _ & _ & _ & _ & _ &
        Hpos & Hcpos).
  rewrite Eis in Eis'. injection Eis' as <- <- <-.
  rewrite Hrev in Ei2. subst i2.
  destruct (Hpos Hsx Hsy Hsz) as (Hw & Hh & Hn). destruct (Hcpos Hcx Hcy Hcz) as (_ & _ & Hd).
  unfold run. rewrite Hc. cbn [negb]. rewrite Ej at 1. rewrite Es. cbn [pr_isize pr_ichunk].
  rewrite Ej. cbn [j_dirs mkjob].
  assert (Hfiles : existsb (fun dd => negb (d_files dd =? n)) (d0 :: dr) = false).
  { clear -Hdirs. induction (d0 :: dr) as [|x l IH]; [reflexivity|].
    cbn [forallb existsb] in *. apply andb_prop in Hdirs as [Hx Hl].
    repeat (apply andb_prop in Hx as [Hx ?]). rewrite Hx. cbn. apply IH. exact Hl. }
  rewrite Hfiles.
  intro Hok.
  destruct (run_groups _ _ (zrange 0 (n_chunks n d)) []) as [ds res] eqn:Er.
  cbn [snd] in Hok. subst res.
  pose proof (run_groups_ok_inv _ _ _ _ _ Er ((n - 1) / d)) as Hg.
  cbn [pr_isize pr_ichunk pr_inv j_dirs mkjob] in Hg.
  assert (Hgin : In ((n - 1) / d) (zrange 0 (n_chunks n d))).
  { apply in_zrange. unfold n_chunks. pose proof (Z.div_pos (n - 1) d ltac:(lia) Hd). lia. }
  specialize (Hg Hgin). cbn [map check_dirs] in Hg.
  cbn [forallb] in Hdirs. apply andb_prop in Hdirs as [Hd0 _].
  repeat (apply andb_prop in Hd0 as [Hd0 ?]). apply Z.eqb_eq in Hd0. rewrite Hd0 in Hg.
  rewrite (reversed_last_group_empty_lemma n d Hn Hd) in Hg. discriminate.
Qed.

Definition rai_witness : job :=
  mkjob [82; 65; 73]%N 1 1 1 1 1 1 1 [{| d_files := 1; d_h := 1; d_w := 1; d_ch := None |}].

Lemma reversed_last_group_refuted_lemma :
  c15_guard rai_witness = false /\ job_wf rai_witness = true /\
  run rai_witness = ([], Crash ValueError).
Proof. repeat split; vm_compute; reflexivity. Qed.

(* a larger witness: the first group is written, the last one aborts the run *)
Definition lpi_witness : job :=
  mkjob [76; 80; 73]%N 2 2 3 2 2 2 1 [{| d_files := 3; d_h := 2; d_w := 2; d_ch := None |}].

Lemma reversed_partial_output_lemma :
  map ck_coords (fst (run lpi_witness)) = [(0, 2, 0, 2, 0, 2)] /\ snd (run lpi_witness) = Crash ValueError /\
  read_back (fst (run lpi_witness)) 0 0 0 0 = designated [76; 80; 73]%N (2, 2, 3) (j_dirs lpi_witness) 0 0 0 0 /\
  read_back (fst (run lpi_witness)) 0 0 2 0 = None.
Proof. repeat split; vm_compute; reflexivity. Qed.
