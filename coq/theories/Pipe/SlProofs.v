(* Proofs for Properties/C15.v. *)
From Coq Require Import NArith ZArith List Bool Lia Arith Ring Sorted Permutation.
From NGS Require Import Val Ints SlSlices.
From NGSGen Require Import Tables.
Import ListNotations.
Open Scope Z_scope.

(* ================= the regenerated tables ================= *)

Definition code_params (code : list N) : option (list Z * list Z) :=
  match map_outcome (fun a => lookup a axis_permutation_for_ras) code,
        map_outcome (fun a => lookup a axis_inversion_for_ras) code with
  | Ok p, Ok inv => Some (p, inv)
  | _, _ => None
  end.

Definition six_perms : list (list Z) :=
  [[0; 1; 2]; [0; 2; 1]; [1; 0; 2]; [1; 2; 0]; [2; 0; 1]; [2; 1; 0]].
Definition zlist_eqb (a b : list Z) : bool :=
  (length a =? length b)%nat && forallb (fun '(x, y) => x =? y) (combine a b).
Definition is_sign (v : Z) : bool := (v =? 1) || (v =? -1).

(* a code denotes a signed permutation, and its letters mean what the
   specification says they mean *)
Definition code_ok (code : list N) : bool :=
  match code, code_params code with
  | [l0; l1; l2], Some (p, inv) =>
      existsb (zlist_eqb p) six_perms && forallb is_sign inv && (length inv =? 3)%nat &&
      forallb (fun '(l, (pk, ik)) =>
                 match letter_axis l with
                 | Some a => (Z.of_nat a =? pk) && (if letter_positive l then ik =? 1 else ik =? -1)
                 | None => false end)
              (combine code (combine p inv))
  | _, _ => false
  end.

Fixpoint nodup_codes (l : list (list N)) : bool :=
  match l with
  | [] => true
  | a :: r => negb (existsb (code_eqb a) r) && nodup_codes r
  end.

Lemma tables_check :
  forallb code_ok possible_axis_orientations = true /\
  length possible_axis_orientations = 48%nat /\ nodup_codes possible_axis_orientations = true.
Proof. repeat split; vm_compute; reflexivity. Qed.

Lemma tables_signed_perm_lemma : forall code, In code possible_axis_orientations ->
  exists l0 l1 l2 p inv, code = [l0; l1; l2] /\ code_params code = Some (p, inv) /\
    In p six_perms /\ length inv = 3%nat /\ (forall v, In v inv -> v = 1 \/ v = -1).
Proof.
  intros code Hin. destruct tables_check as [Hall _].
  rewrite forallb_forall in Hall. specialize (Hall code Hin).
  unfold code_ok in Hall.
  destruct code as [|l0 [|l1 [|l2 [|? ?]]]]; try discriminate.
  destruct (code_params [l0; l1; l2]) as [[p inv]|]; [|discriminate].
  apply andb_prop in Hall as [Hall _]. apply andb_prop in Hall as [Hall Hlen].
  apply andb_prop in Hall as [Hp Hs].
  exists l0, l1, l2, p, inv. split; [reflexivity|]. split; [reflexivity|]. split.
  - apply existsb_exists in Hp as (q & Hq & He). unfold zlist_eqb in He.
    assert (p = q) as ->; [|exact Hq].
    clear -Hq He. unfold six_perms in Hq. cbn [In] in Hq.
    destruct p as [|a [|b [|c [|? ?]]]];
      repeat (destruct Hq as [<-|Hq]; [cbn in He; try discriminate|]); try contradiction;
      repeat (apply andb_prop in He as [? He]); repeat match goal with H : (_ =? _) = true |- _ => apply Z.eqb_eq in H end;
      subst; try reflexivity; try discriminate.
  - split; [apply Nat.eqb_eq; exact Hlen|].
    intros v Hv. rewrite forallb_forall in Hs. specialize (Hs v Hv). unfold is_sign in Hs.
    apply orb_prop in Hs as [H|H]; apply Z.eqb_eq in H; auto.
Qed.

(* utils.invert_permutation really inverts every permutation the tables yield,
   and utils.permute picks the listed elements *)
Lemma invert_permutation_six : forall p, In p six_perms ->
  exists q, invert_permutation p = Ok q /\
    forall k, (k < 3)%nat -> nth (Z.to_nat (nth k p 0)) q (-1) = Z.of_nat k.
Proof.
  intros p Hp. unfold six_perms in Hp. cbn [In] in Hp.
  repeat (destruct Hp as [<-|Hp];
          [eexists; split; [vm_compute; reflexivity|];
           intros [|[|[|k]]] Hk; try reflexivity; lia|]).
  contradiction.
Qed.

Lemma permute_three : forall {A} (a b c : A) p, In p six_perms ->
  exists x y z, permute [a; b; c] p = Ok [x; y; z] /\
    forall k d, (k < 3)%nat -> nth k [x; y; z] d = nth (Z.to_nat (nth k p 0)) [a; b; c] d.
Proof.
  intros A a b c p Hp. unfold six_perms in Hp. cbn [In] in Hp.
  repeat (destruct Hp as [<-|Hp];
          [do 3 eexists; split; [reflexivity|];
           intros [|[|[|k]]] d Hk; try reflexivity; lia|]).
  contradiction.
Qed.

(* ================= Python slices ================= *)

Lemma zrange_length : forall a n, length (zrange a n) = Z.to_nat n.
Proof. intros. unfold zrange. rewrite map_length, seq_length. reflexivity. Qed.

Lemma zrange_nonpos : forall a n, n <= 0 -> zrange a n = [].
Proof. intros a n H. unfold zrange. replace (Z.to_nat n) with 0%nat by lia. reflexivity. Qed.

Lemma in_zrange : forall a n i, In i (zrange a n) <-> a <= i < a + n.
Proof.
  intros a n i. unfold zrange. rewrite in_map_iff. split.
  - intros (k & <- & Hk). apply in_seq in Hk. lia.
  - intro H. exists (Z.to_nat (i - a)). split; [lia|]. apply in_seq. lia.
Qed.

Lemma nth_error_zrange : forall a n i, 0 <= i < n -> nth_error (zrange a n) (Z.to_nat i) = Some (a + i).
Proof.
  intros a n i H. unfold zrange.
  rewrite nth_error_map, nth_error_nth' with (d := 0%nat) by (rewrite seq_length; lia).
  rewrite seq_nth by lia. cbn. f_equal. lia.
Qed.

Lemma adjust_forward : forall len b, 0 <= b <= len -> adjust_bound len 1 b = b.
Proof.
  intros len b H. unfold adjust_bound. change (1 <? 0) with false. cbv iota.
  destruct (Z.ltb_spec b 0); [lia|]. destruct (Z.leb_spec len b); lia.
Qed.

Lemma adjust_backward_in : forall len b, 0 <= b < len -> adjust_bound len (-1) b = b.
Proof.
  intros len b H. unfold adjust_bound.
  destruct (Z.ltb_spec b 0); [lia|]. destruct (Z.leb_spec len b); lia.
Qed.

Lemma slice_forward : forall len a b, 0 <= a -> a <= b -> b <= len ->
  slice_indices len a (Some b) 1 = zrange a (b - a).
Proof.
  intros len a b Ha Hab Hb. unfold slice_indices.
  rewrite !adjust_forward by lia. reflexivity.
Qed.

(* seq[a:b:-1] with 0 <= b <= a < len, and seq[a::-1] (stop omitted): from a
   down to b + 1, resp. down to 0 *)
Lemma slice_backward : forall len a b, 0 <= b -> b <= a -> a < len ->
  slice_indices len a (Some b) (-1) = map (fun i => a - i) (zrange 0 (a - b)).
Proof.
  intros len a b Hb Hab Ha. unfold slice_indices.
  rewrite !adjust_backward_in by lia. reflexivity.
Qed.

Lemma slice_backward_open : forall len a, 0 <= a -> a < len ->
  slice_indices len a None (-1) = map (fun i => a - i) (zrange 0 (a + 1)).
Proof.
  intros len a H0 Ha. unfold slice_indices.
  rewrite adjust_backward_in by lia. change (-1 <? 0) with true. cbv iota.
  change (-1 =? 1) with false. change (-1 =? -1) with true. cbv iota.
  replace (a - -1) with (a + 1) by lia. reflexivity.
Qed.

Lemma zrange_shift : forall a n, zrange a n = map (fun i => a + i) (zrange 0 n).
Proof.
  intros a n. unfold zrange. rewrite map_map. apply map_ext. intro i. lia.
Qed.

(* Which files a slice group reads, for both directions of the slice axis and
   every group: the slices d g .. min(d (g+1), n) - 1 of the oriented stack,
   i.e. file  d g + i  (forward) or  n - 1 - (d g + i)  (reversed), in that
   order. *)
Lemma group_sel_spec : forall n d i2 g, i2 = 1 \/ i2 = -1 -> 0 < d -> 0 <= g -> d * g < n ->
  group_sel n n d i2 g =
  map (fun i => flip_index n i2 (d * g + i)) (zrange 0 (Z.min (d * (g + 1)) n - d * g)).
Proof.
  intros n d i2 g [-> | ->] Hd Hg Hlt; unfold group_sel, flip_index.
  - change (1 =? -1) with false. cbv iota.
    rewrite slice_forward by nia. apply zrange_shift.
  - change (-1 =? -1) with true. cbv iota.
    destruct (Z.leb_spec 0 (n - Z.min (d * (g + 1)) n - 1)) as [Hl|Hl].
    + rewrite slice_backward by nia.
      replace (n - d * g - 1 - (n - Z.min (d * (g + 1)) n - 1)) with (Z.min (d * (g + 1)) n - d * g) by lia.
      apply map_ext. intro i. lia.
    + rewrite slice_backward_open by nia.
      replace (n - d * g - 1 + 1) with (Z.min (d * (g + 1)) n - d * g) by lia.
      apply map_ext. intro i. lia.
Qed.

Lemma nth_error_map_zrange : forall (f : Z -> Z) n i, 0 <= i < n ->
  nth_error (map f (zrange 0 n)) (Z.to_nat i) = Some (f i).
Proof.
  intros f n i H. rewrite nth_error_map, (nth_error_zrange 0 n i H). reflexivity.
Qed.

(* ================= setup, for each of the 48 codes ================= *)

Lemma code_eqb_eq : forall a b, code_eqb a b = true -> a = b.
Proof.
  induction a as [|x a IH]; intros [|y b] H; try reflexivity; try discriminate.
  unfold code_eqb in H. cbn in H. apply andb_prop in H as [Hl Hf]. apply andb_prop in Hf as [Hx Hf].
  apply N.eqb_eq in Hx. subst y. f_equal. apply IH. unfold code_eqb. cbn in Hl. rewrite Hl, Hf. reflexivity.
Qed.

Lemma in_table : forall code, existsb (code_eqb code) possible_axis_orientations = true ->
  In code possible_axis_orientations.
Proof.
  intros code H. apply existsb_exists in H as (c & Hc & He). apply code_eqb_eq in He. subst c. exact Hc.
Qed.

(* what a conversion yields, in terms of the permutation and the three
   inversions (indices in the order z y x, as in a chunk) *)
Definition gen_designated (p0 p1 p2 i0 i1 i2 w h n : Z) (dirs : list dirinfo) (x y z c : Z) : option src :=
  match channel_source dirs 0 c with
  | Some (di, ch) =>
      Some {| s_dir := di; s_file := flip_index n i2 (pick3 (3 - p2) z y x);
              s_row := flip_index h i1 (pick3 (3 - p1) z y x);
              s_col := flip_index w i0 (pick3 (3 - p0) z y x); s_ch := ch |}
  | None => None
  end.

Definition mkjob code sx sy sz cx cy cz nch dirs : job :=
  {| j_code := code; j_size := [sx; sy; sz]; j_chunk := [cx; cy; cz]; j_nch := nch; j_dirs := dirs |}.

Lemma setup_cases : forall code, In code possible_axis_orientations ->
  forall sx sy sz cx cy cz nch dirs,
  exists p0 p1 p2 i0 i1 i2 q w h n cw chh d,
    setup (mkjob code sx sy sz cx cy cz nch dirs) =
      Ok {| pr_p := (p0, p1, p2); pr_inv := (i0, i1, i2); pr_q := q;
            pr_isize := (w, h, n); pr_ichunk := (cw, chh, d) |} /\
    input_size_of code (sx, sy, sz) = Some (w, h, n) /\
    (i2 = 1 \/ i2 = -1) /\
    In [p0; p1; p2] six_perms /\ invert_permutation [p0; p1; p2] = Ok q /\
    permute [sx; sy; sz] [p0; p1; p2] = Ok [w; h; n] /\
    permute [cx; cy; cz] [p0; p1; p2] = Ok [cw; chh; d] /\
    (i0 = 1 \/ i0 = -1) /\ (i1 = 1 \/ i1 = -1) /\
    (0 < sx -> 0 < sy -> 0 < sz -> 0 < w /\ 0 < h /\ 0 < n) /\
    (0 < cx -> 0 < cy -> 0 < cz -> 0 < cw /\ 0 < chh /\ 0 < d) /\
    (forall x y z c,
       designated code (sx, sy, sz) dirs x y z c = gen_designated p0 p1 p2 i0 i1 i2 w h n dirs x y z c) /\
    (Z.to_nat (n_chunks n d) * (Z.to_nat (n_chunks h chh) * Z.to_nat (n_chunks w cw)) =
     Z.to_nat (n_chunks sx cx) * Z.to_nat (n_chunks sy cy) * Z.to_nat (n_chunks sz cz))%nat.
Proof.
  intros code Hin sx sy sz cx cy cz nch dirs.
  unfold possible_axis_orientations in Hin. cbn [In] in Hin.
  repeat (destruct Hin as [<-|Hin];
          [do 13 eexists; split; [vm_compute; reflexivity|];
           split; [reflexivity|]; split; [auto|];
           split; [vm_compute; tauto|]; split; [vm_compute; reflexivity|];
           split; [reflexivity|]; split; [reflexivity|];
           split; [auto|]; split; [auto|]; split; [intros; repeat split; assumption|];
           split; [intros; repeat split; assumption|];
           split; [intros; reflexivity|]; ring|]).
  contradiction.
Qed.

(* ================= well-formed jobs ================= *)

Lemma job_wf_fields : forall j, job_wf j = true ->
  exists sx sy sz cx cy cz w h n d0 dr,
    j = mkjob (j_code j) sx sy sz cx cy cz (j_nch j) (d0 :: dr) /\
    0 < sx /\ 0 < sy /\ 0 < sz /\ 0 < cx /\ 0 < cy /\ 0 < cz /\
    input_size_of (j_code j) (sx, sy, sz) = Some (w, h, n) /\
    forallb (fun d => (d_files d =? n) && (d_w d =? w) && (d_h d =? h) && (0 <? dir_channels d)) (d0 :: dr) = true /\
    sumZl (map dir_channels (d0 :: dr)) = j_nch j.
Proof.
  intros [code size chunk nch dirs] H. unfold job_wf in H. cbn [j_size j_chunk j_code j_dirs j_nch] in *.
  destruct size as [|sx [|sy [|sz [|? ?]]]]; try discriminate.
  destruct chunk as [|cx [|cy [|cz [|? ?]]]]; try discriminate.
  repeat (apply andb_prop in H as [H ?]).
  destruct (input_size_of code (sx, sy, sz)) as [[[w h] n]|] eqn:E; [|discriminate].
  match goal with H1 : _ && _ && _ = true |- _ => apply andb_prop in H1 as [H1 Hs]; apply andb_prop in H1 as [Hd Hf] end.
  destruct dirs as [|d0 dr]; [discriminate|].
  exists sx, sy, sz, cx, cy, cz, w, h, n, d0, dr.
  repeat match goal with Hx : (0 <? _) = true |- _ => apply Z.ltb_lt in Hx end.
  apply Z.eqb_eq in Hs. repeat split; try assumption; reflexivity.
Qed.

(* ================= the run completes, for both directions of the slice axis ================= *)


Definition dir_ok (w h n : Z) (d : dirinfo) : bool :=
  (d_files d =? n) && (d_w d =? w) && (d_h d =? h) && (0 <? dir_channels d).

Lemma dir_ok_fields : forall w h n d, dir_ok w h n d = true ->
  d_files d = n /\ d_w d = w /\ d_h d = h /\ 0 < dir_channels d.
Proof.
  intros w h n d H. unfold dir_ok in H. repeat (apply andb_prop in H as [H ?]).
  apply Z.eqb_eq in H. repeat match goal with Hx : (_ =? _) = true |- _ => apply Z.eqb_eq in Hx end.
  match goal with Hx : (0 <? _) = true |- _ => apply Z.ltb_lt in Hx end. auto.
Qed.

Lemma check_dirs_forward : forall w h n d i2 g dirs, i2 = 1 \/ i2 = -1 -> 0 < d -> 0 <= g -> d * g < n ->
  forallb (dir_ok w h n) dirs = true ->
  check_dirs dirs (map (fun dd => group_sel (d_files dd) n d i2 g) dirs) w h = Ok tt.
Proof.
  intros w h n d i2 g dirs Hi2 Hd Hg Hlt. induction dirs as [|x dirs IH]; intro Hok; [reflexivity|].
  cbn [forallb] in Hok. apply andb_prop in Hok as [Hx Hr].
  destruct (dir_ok_fields _ _ _ _ Hx) as (Hf & Hw & Hh & _).
  cbn [map check_dirs]. rewrite Hf, (group_sel_spec n d i2 g Hi2 Hd Hg Hlt).
  destruct (map (fun i => flip_index n i2 (d * g + i)) (zrange 0 (Z.min (d * (g + 1)) n - d * g)))
    as [|a l] eqn:E.
  - apply (f_equal (@length Z)) in E. rewrite map_length, zrange_length in E. cbn in E. nia.
  - rewrite Hw, Hh, !Z.eqb_refl. cbn [negb]. apply IH. exact Hr.
Qed.

Lemma write_chunks_ok : forall pr block g mkc cells nsel done,
  (forall ri ci, In (ri, ci) cells -> chunk_of pr block g ri ci = Ok (mkc ri ci)) ->
  write_chunks pr block g cells nsel nsel done = (done ++ map (fun '(ri, ci) => mkc ri ci) cells, Ok tt).
Proof.
  intros pr block g mkc cells nsel. induction cells as [|[ri ci] r IH]; intros done H.
  - cbn. rewrite app_nil_r. reflexivity.
  - cbn [write_chunks]. rewrite Z.eqb_refl. cbn [negb].
    rewrite (H ri ci (or_introl eq_refl)). rewrite IH by (intros; apply H; right; assumption).
    cbn [map]. rewrite <- app_assoc. reflexivity.
Qed.

Lemma run_groups_forward : forall p3 i0 i1 i2 q w h n cw chh d j mkc,
  let pr := {| pr_p := p3; pr_inv := (i0, i1, i2); pr_q := q; pr_isize := (w, h, n); pr_ichunk := (cw, chh, d) |} in
  (i2 = 1 \/ i2 = -1) -> 0 < d -> j_dirs j <> [] -> forallb (dir_ok w h n) (j_dirs j) = true ->
  sumZl (map dir_channels (j_dirs j)) = j_nch j ->
  (forall g ri ci, In (ri, ci) (cells_of pr) ->
     chunk_of pr (group_block pr (j_dirs j) g) g ri ci = Ok (mkc g ri ci)) ->
  forall groups done, (forall g, In g groups -> 0 <= g /\ d * g < n) ->
  run_groups pr j groups done =
    (done ++ flat_map (fun g => map (fun '(ri, ci) => mkc g ri ci) (cells_of pr)) groups, Ok tt).
Proof.
  intros p3 i0 i1 i2 q w h n cw chh d j mkc pr Hi2 Hd Hne Hdirs Hsum Hck.
  induction groups as [|g r IH]; intros done Hg.
  - cbn. rewrite app_nil_r. reflexivity.
  - destruct (Hg g (or_introl eq_refl)) as [Hg0 Hgn].
    cbn [run_groups]. unfold pr at 1 2 3. cbn [pr_isize pr_ichunk pr_inv].
    rewrite (check_dirs_forward w h n d i2 g (j_dirs j) Hi2 Hd Hg0 Hgn Hdirs).
    rewrite Hsum, Z.eqb_refl. cbn [negb].
    assert (Hnsel : match map (fun dd => group_sel (d_files dd) n d i2 g) (j_dirs j) with
                    | s :: _ => Z.of_nat (length s) | [] => 0 end = Z.min (d * (g + 1)) n - d * g).
    { destruct (j_dirs j) as [|d0 dr]; [contradiction|].
      cbn [forallb] in Hdirs. apply andb_prop in Hdirs as [Hd0 _].
      destruct (dir_ok_fields _ _ _ _ Hd0) as (Hf & _). cbn [map]. rewrite Hf.
      rewrite (group_sel_spec n d i2 g Hi2 Hd Hg0 Hgn), map_length, zrange_length. nia. }
    rewrite Hnsel.
    rewrite (write_chunks_ok pr _ g (mkc g)) by (intros; apply Hck; assumption).
    rewrite IH by (intros; apply Hg; right; assumption).
    cbn [flat_map]. rewrite <- app_assoc. reflexivity.
Qed.

(* ---------- what a group's block holds ---------- *)

Lemma channel_source_ge : forall dirs start c di ch,
  channel_source dirs start c = Some (di, ch) -> start <= di.
Proof.
  induction dirs as [|x l IH]; intros start c di ch E; [discriminate|].
  cbn [channel_source] in E. destruct (c <? dir_channels x).
  - injection E as <- _. lia.
  - apply IH in E. lia.
Qed.

Lemma concat_channels_at : forall dirs start sel c j r col,
  0 <= c ->
  concat_channels (map (fun '(di, dd) => (dir_channels dd, load_block di dd (sel dd)))
                       (combine (zrange start (Z.of_nat (length dirs))) dirs)) c j r col
  = match channel_source dirs start c with
    | Some (di, ch) =>
        match nth_error dirs (Z.to_nat (di - start)) with
        | Some dd => load_block di dd (sel dd) ch j r col
        | None => None end
    | None => None end.
Proof.
  induction dirs as [|dd dirs IH]; intros start sel c j r col Hc; [reflexivity|].
  replace (zrange start (Z.of_nat (length (dd :: dirs))))
    with (start :: zrange (start + 1) (Z.of_nat (length dirs))).
  2:{ unfold zrange. cbn [length]. rewrite Nat2Z.id.
      replace (Z.to_nat (Z.of_nat (S (length dirs)))) with (S (length dirs)) by lia.
      cbn [seq map]. f_equal; [lia|]. rewrite <- seq_shift, map_map. apply map_ext. intro a. lia. }
  cbn [combine map concat_channels channel_source].
  destruct (Z.ltb_spec c (dir_channels dd)) as [Hlt|Hge].
  - destruct (Z.leb_spec 0 c); [|lia].
    replace (Z.to_nat (start - start)) with 0%nat by lia. reflexivity.
  - rewrite (IH (start + 1) sel (c - dir_channels dd) j r col) by lia.
    destruct (channel_source dirs (start + 1) (c - dir_channels dd)) as [[di ch]|] eqn:E; [|reflexivity].
    pose proof (channel_source_ge _ _ _ _ _ E) as Hdi.
    replace (Z.to_nat (di - start)) with (S (Z.to_nat (di - (start + 1)))) by lia. reflexivity.
Qed.

Lemma channel_source_spec : forall dirs start c di ch, 0 <= c ->
  channel_source dirs start c = Some (di, ch) ->
  exists dd, nth_error dirs (Z.to_nat (di - start)) = Some dd /\ 0 <= ch < dir_channels dd.
Proof.
  induction dirs as [|x l IH]; intros start c di ch Hc E; [discriminate|].
  cbn [channel_source] in E. destruct (Z.ltb_spec c (dir_channels x)) as [Hlt|Hge].
  - injection E as <- <-. exists x. replace (Z.to_nat (start - start)) with 0%nat by lia. split; [reflexivity|lia].
  - pose proof (channel_source_ge _ _ _ _ _ E) as Hdi.
    destruct (IH (start + 1) (c - dir_channels x) di ch ltac:(lia) E) as (dd & Hn & Hr).
    exists dd. replace (Z.to_nat (di - start)) with (S (Z.to_nat (di - (start + 1)))) by lia.
    split; assumption.
Qed.

Lemma flip_in_range : forall len s i, s = 1 \/ s = -1 -> 0 <= i < len -> 0 <= flip_index len s i < len.
Proof. intros len s i [-> | ->] H; unfold flip_index; cbn; lia. Qed.

Lemma group_block_at : forall p0 p1 p2 i0 i1 i2 q w h n cw chh d dirs g c a1 a2 a3,
  let pr := {| pr_p := (p0, p1, p2); pr_inv := (i0, i1, i2); pr_q := q;
               pr_isize := (w, h, n); pr_ichunk := (cw, chh, d) |} in
  0 < d -> 0 <= g -> d * g < n -> forallb (dir_ok w h n) dirs = true -> 0 <= c ->
  (i0 = 1 \/ i0 = -1) -> (i1 = 1 \/ i1 = -1) -> (i2 = 1 \/ i2 = -1) ->
  0 <= pick3 (3 - p2) a1 a2 a3 < Z.min (d * (g + 1)) n - d * g ->
  0 <= pick3 (3 - p1) a1 a2 a3 < h -> 0 <= pick3 (3 - p0) a1 a2 a3 < w ->
  group_block pr dirs g c a1 a2 a3 =
    match channel_source dirs 0 c with
    | Some (di, ch) =>
        Some {| s_dir := di; s_file := flip_index n i2 (d * g + pick3 (3 - p2) a1 a2 a3);
                s_row := flip_index h i1 (pick3 (3 - p1) a1 a2 a3);
                s_col := flip_index w i0 (pick3 (3 - p0) a1 a2 a3); s_ch := ch |}
    | None => None end.
Proof.
  intros p0 p1 p2 i0 i1 i2 q w h n cw chh d dirs g c a1 a2 a3 pr Hd Hg Hgn Hdirs Hc Hi0 Hi1 Hi2 Hj Hr Hcol.
  unfold group_block, pr. cbn [pr_p pr_inv pr_isize pr_ichunk]. unfold moveaxis_321.
  set (j := pick3 (3 - p2) a1 a2 a3) in *. set (r := pick3 (3 - p1) a1 a2 a3) in *.
  set (col := pick3 (3 - p0) a1 a2 a3) in *.
  rewrite (concat_channels_at dirs 0 (fun dd => group_sel (d_files dd) n d i2 g)) by exact Hc.
  destruct (channel_source dirs 0 c) as [[di ch]|] eqn:E; [|reflexivity].
  destruct (channel_source_spec _ _ _ _ _ Hc E) as (dd & Hn & Hch).
  rewrite Hn.
  assert (Hok : dir_ok w h n dd = true).
  { rewrite forallb_forall in Hdirs. apply Hdirs. eapply nth_error_In. exact Hn. }
  destruct (dir_ok_fields _ _ _ _ Hok) as (Hf & Hw & Hh & _).
  unfold load_block. rewrite Hf, Hw, Hh.
  pose proof (flip_in_range h i1 r Hi1 Hr) as Hfr. pose proof (flip_in_range w i0 col Hi0 Hcol) as Hfc.
  rewrite (group_sel_spec n d i2 g Hi2 Hd Hg Hgn), (nth_error_map_zrange _ _ j Hj).
  destruct (Z.leb_spec 0 j); [|lia].
  destruct (Z.leb_spec 0 (flip_index h i1 r)); [|lia]. destruct (Z.ltb_spec (flip_index h i1 r) h); [|lia].
  destruct (Z.leb_spec 0 (flip_index w i0 col)); [|lia]. destruct (Z.ltb_spec (flip_index w i0 col) w); [|lia].
  destruct (Z.leb_spec 0 ch); [|lia]. destruct (Z.ltb_spec ch (dir_channels dd)); [|lia].
  reflexivity.
Qed.

(* ---------- reading back ---------- *)

Definition chunk_value (ck : chunk) (x y z c : Z) : option src :=
  let '(xa, _, ya, _, za, _) := ck_coords ck in ck_data ck c (z - za) (y - ya) (x - xa).

Lemma read_back_spec : forall ds x y z c v,
  (forall ck, In ck ds -> in_chunk ck x y z = true -> chunk_value ck x y z c = v) ->
  (exists ck, In ck ds /\ in_chunk ck x y z = true) ->
  read_back ds x y z c = v.
Proof.
  intros ds x y z c v Hall (ck0 & Hin0 & Hc0). unfold read_back.
  destruct (find (fun ck => in_chunk ck x y z) (rev ds)) as [ck|] eqn:E.
  - apply find_some in E as [Hin Hc]. apply in_rev in Hin.
    specialize (Hall ck Hin Hc). unfold chunk_value in Hall. exact Hall.
  - exfalso. pose proof (find_none _ _ E ck0) as Hn. rewrite <- in_rev in Hn.
    specialize (Hn Hin0). cbv beta in Hn. rewrite Hc0 in Hn. discriminate.
Qed.

(* chunk indices along one axis *)
Lemma div_chunk_bounds : forall s n d, 0 < d -> 0 <= s < n ->
  0 <= s / d < n_chunks n d /\ d * (s / d) <= s < Z.min (d * (s / d + 1)) n.
Proof.
  intros s n d Hd Hs. unfold n_chunks.
  pose proof (Z.div_pos s d ltac:(lia) Hd).
  pose proof (Z.div_le_mono s (n - 1) d Hd ltac:(lia)).
  pose proof (Z.mul_div_le s d Hd).
  pose proof (Z.mod_pos_bound s d Hd). pose proof (Z.div_mod s d ltac:(lia)).
  split; [lia|]. split; [lia|]. apply Z.min_glb_lt; nia.
Qed.

Lemma in_cells : forall pr ri ci,
  In (ri, ci) (cells_of pr) <->
  let '(w, h, _) := pr_isize pr in let '(cw, chh, _) := pr_ichunk pr in
  0 <= ri < n_chunks h chh /\ 0 <= ci < n_chunks w cw.
Proof.
  intros [p3 inv q [[w h] n] [[cw chh] d]] ri ci. unfold cells_of. cbn [pr_isize pr_ichunk].
  rewrite in_flat_map. split.
  - intros (r & Hr & Hin). apply in_map_iff in Hin as (c & Heq & Hc). injection Heq as <- <-.
    apply in_zrange in Hr, Hc. lia.
  - intros [Hr Hc]. exists ri. split; [apply in_zrange; lia|]. apply in_map_iff. exists ci.
    split; [reflexivity | apply in_zrange; lia].
Qed.

Lemma pick3_1 : forall a b c, pick3 1 a b c = a. Proof. reflexivity. Qed.
Lemma pick3_2 : forall a b c, pick3 2 a b c = b. Proof. reflexivity. Qed.
Lemma pick3_3 : forall a b c, pick3 3 a b c = c. Proof. reflexivity. Qed.
Ltac pick_compute :=
  change (3 - 0) with 3 in *; change (3 - 1) with 2 in *; change (3 - 2) with 1 in *;
  rewrite ?pick3_1, ?pick3_2, ?pick3_3 in *.

Lemma flat_map_length_const : forall {A B} (f : A -> list B) k l,
  (forall a, length (f a) = k) -> length (flat_map f l) = (length l * k)%nat.
Proof.
  intros A B f k l H. induction l as [|a l IH]; [reflexivity|].
  cbn [flat_map length]. rewrite app_length, H, IH. lia.
Qed.

Lemma cells_length : forall pr,
  length (cells_of pr) =
  (let '(w, h, _) := pr_isize pr in let '(cw, chh, _) := pr_ichunk pr in
   Z.to_nat (n_chunks h chh) * Z.to_nat (n_chunks w cw))%nat.
Proof.
  intros [p3 inv q [[w h] n] [[cw chh] d]]. unfold cells_of. cbn [pr_isize pr_ichunk].
  rewrite (flat_map_length_const _ (Z.to_nat (n_chunks w cw))).
  - rewrite zrange_length. reflexivity.
  - intro a. rewrite map_length, zrange_length. reflexivity.
Qed.

Ltac in_chunk_hyps Hck :=
  unfold in_chunk in Hck; cbn [ck_coords] in Hck;
  repeat (apply andb_prop in Hck as [Hck ?]);
  repeat match goal with Hb : (_ <=? _) = true |- _ => apply Z.leb_le in Hb
                       | Hb : (_ <? _) = true |- _ => apply Z.ltb_lt in Hb end.

Ltac group_bound :=
  match goal with Hg' : 0 <= ?g < 0 + n_chunks ?nn ?dd |- _ =>
    assert (dd * g < nn) by
     (unfold n_chunks in Hg';
      pose proof (Z.mul_div_le (nn - 1) dd ltac:(lia));
      assert (dd * g <= dd * ((nn - 1) / dd)) by (apply Z.mul_le_mono_nonneg_l; lia); lia) end.

Ltac value_tac j c :=
  let ck := fresh "ck" in let Hin := fresh "Hin" in let Hck := fresh "Hck" in
  let g := fresh "g" in let Hg := fresh "Hg" in let ri := fresh "ri" in let ci := fresh "ci" in
  let Hcell := fresh "Hcell" in
  intros ck Hin Hck; apply in_flat_map in Hin as (g & Hg & Hin);
  apply in_map_iff in Hin as ([ri ci] & <- & Hcell);
  apply in_zrange in Hg; apply in_cells in Hcell; cbn [pr_isize pr_ichunk] in Hcell;
  in_chunk_hyps Hck;
  unfold chunk_value; cbn [ck_coords ck_data]; unfold sub_block;
  group_bound;
  rewrite group_block_at; try assumption; pick_compute; try lia;
  unfold gen_designated; pick_compute;
  destruct (channel_source (j_dirs j) 0 c) as [[? ?]|]; [|reflexivity];
  do 2 f_equal; first [lia | f_equal; lia].

Ltac cover_tac x y z :=
  match goal with
  | pr := {| pr_p := (?p0, ?p1, ?p2); pr_inv := _; pr_q := _; pr_isize := (?w, ?h, ?n);
             pr_ichunk := (?cw, ?chh, ?d) |} |- _ =>
      let B1 := fresh "B" in let B2 := fresh "B" in let B3 := fresh "B" in
      assert (B1 := div_chunk_bounds (pick3 (3 - p2) z y x) n d);
      assert (B2 := div_chunk_bounds (pick3 (3 - p1) z y x) h chh);
      assert (B3 := div_chunk_bounds (pick3 (3 - p0) z y x) w cw);
      pick_compute;
      specialize (B1 ltac:(lia) ltac:(lia)); specialize (B2 ltac:(lia) ltac:(lia));
      specialize (B3 ltac:(lia) ltac:(lia));
      eexists; split;
      [ apply in_flat_map; eexists; split; [apply in_zrange; apply B1|];
        apply in_map_iff; eexists (_, _); split; [reflexivity|];
        apply in_cells; cbn [pr_isize pr_ichunk]; split; [apply B2 | apply B3]
      | unfold in_chunk; cbn [ck_coords];
        repeat (apply andb_true_intro; split);
        first [apply Z.leb_le; lia | apply Z.ltb_lt; lia] ]
  end.

Lemma forward_generic : forall p0 p1 p2 i0 i1 i2 q sx sy sz cx cy cz w h n cw chh d j,
  In [p0; p1; p2] six_perms -> invert_permutation [p0; p1; p2] = Ok q ->
  permute [sx; sy; sz] [p0; p1; p2] = Ok [w; h; n] ->
  permute [cx; cy; cz] [p0; p1; p2] = Ok [cw; chh; d] ->
  0 < sx -> 0 < sy -> 0 < sz -> 0 < cx -> 0 < cy -> 0 < cz ->
  (i0 = 1 \/ i0 = -1) -> (i1 = 1 \/ i1 = -1) -> (i2 = 1 \/ i2 = -1) ->
  j_dirs j <> [] -> forallb (dir_ok w h n) (j_dirs j) = true ->
  sumZl (map dir_channels (j_dirs j)) = j_nch j ->
  let pr := {| pr_p := (p0, p1, p2); pr_inv := (i0, i1, i2); pr_q := q;
               pr_isize := (w, h, n); pr_ichunk := (cw, chh, d) |} in
  exists ds, run_groups pr j (zrange 0 (n_chunks n d)) [] = (ds, Ok tt) /\
    (forall x y z c, 0 <= x < sx -> 0 <= y < sy -> 0 <= z < sz -> 0 <= c ->
       read_back ds x y z c = gen_designated p0 p1 p2 i0 i1 i2 w h n (j_dirs j) x y z c) /\
    (forall x y z, 0 <= x < sx -> 0 <= y < sy -> 0 <= z < sz ->
       exists ck, In ck ds /\ in_chunk ck x y z = true) /\
    length ds = (Z.to_nat (n_chunks n d) * (Z.to_nat (n_chunks h chh) * Z.to_nat (n_chunks w cw)))%nat.
Proof.
  intros p0 p1 p2 i0 i1 i2 q sx sy sz cx cy cz w h n cw chh d j Hp Hq Hsz Hcs
         Hsx Hsy Hsz0 Hcx Hcy Hcz Hi0 Hi1 Hi2 Hne Hdirs Hsum pr.
  unfold six_perms in Hp. cbn [In] in Hp.
  repeat (destruct Hp as [Hp|Hp]; [injection Hp as <- <- <-|]); try contradiction;
  vm_compute in Hq; injection Hq as <-;
  cbn in Hsz; injection Hsz as <- <- <-; cbn in Hcs; injection Hcs as <- <- <-.
  all: eexists; split;
    [ unfold pr; eapply run_groups_forward; try assumption;
      [ intros g ri ci _; unfold chunk_of; cbn -[group_block Z.mul Z.add Z.min]; reflexivity
      | intros g Hg; apply in_zrange in Hg; unfold n_chunks in Hg;
        match goal with |- _ /\ ?dd * g < ?nn =>
          pose proof (Z.mul_div_le (nn - 1) dd ltac:(lia));
          assert (dd * g <= dd * ((nn - 1) / dd)) by (apply Z.mul_le_mono_nonneg_l; lia) end; lia ]
    | ].
  all: cbn [List.app].
  all: split; [| split].
  all: try (intros x y z c Hx Hy Hz Hc; apply read_back_spec; [value_tac j c | cover_tac x y z]).
  all: try (intros x y z Hx Hy Hz; cover_tac x y z).
  all: rewrite (flat_map_length_const _ (length (cells_of pr)));
       [ rewrite zrange_length, cells_length; reflexivity
       | intro a; rewrite map_length; reflexivity ].
Qed.

(* ================= the theorem of C15 ================= *)

Lemma orientation_pointwise_lemma : forall j, c15_wf j = true ->
  exists ds sx sy sz cx cy cz,
    j_size j = [sx; sy; sz] /\ j_chunk j = [cx; cy; cz] /\ run j = (ds, Ok tt) /\
    (forall x y z c, 0 <= x < sx -> 0 <= y < sy -> 0 <= z < sz -> 0 <= c ->
       read_back ds x y z c = designated (j_code j) (sx, sy, sz) (j_dirs j) x y z c) /\
    (forall x y z, 0 <= x < sx -> 0 <= y < sy -> 0 <= z < sz ->
       exists ck, In ck ds /\ in_chunk ck x y z = true) /\
    length ds = (Z.to_nat (n_chunks sx cx) * Z.to_nat (n_chunks sy cy) * Z.to_nat (n_chunks sz cz))%nat.
Proof.
  intros j Hg. unfold c15_wf in Hg. apply andb_prop in Hg as [Hc Hwf].
  destruct (job_wf_fields j Hwf) as (sx & sy & sz & cx & cy & cz & w & h & n & d0 & dr & Ej & Hsx & Hsy & Hsz &
                                      Hcx & Hcy & Hcz & Eis & Hdirs & Hch).
  pose proof (in_table _ Hc) as Hin.
  destruct (setup_cases _ Hin sx sy sz cx cy cz (j_nch j) (d0 :: dr))
    as (p0 & p1 & p2 & i0 & i1 & i2 & q & w' & h' & n' & cw & chh & d & Es & Eis' & Hi2 & Hp & Hq & Hps & Hpc &
        Hi0 & Hi1 & Hpos & Hcpos & Hdes & Hcount).
  rewrite Eis in Eis'. injection Eis' as <- <- <-.
  destruct (Hpos Hsx Hsy Hsz) as (Hw & Hh & Hn). destruct (Hcpos Hcx Hcy Hcz) as (_ & _ & Hd).
  assert (Ejd : j_dirs j = d0 :: dr) by (rewrite Ej; reflexivity).
  assert (Ejs : j_size j = [sx; sy; sz]) by (rewrite Ej; reflexivity).
  assert (Ejc : j_chunk j = [cx; cy; cz]) by (rewrite Ej; reflexivity).
  destruct (forward_generic p0 p1 p2 i0 i1 i2 q sx sy sz cx cy cz w h n cw chh d j Hp Hq Hps Hpc
              Hsx Hsy Hsz Hcx Hcy Hcz Hi0 Hi1 Hi2) as (ds & Hrun & Hpt & Hcov & Hlen).
  { rewrite Ejd. discriminate. }
  { rewrite Ejd. exact Hdirs. }
  { rewrite Ejd. exact Hch. }
  exists ds, sx, sy, sz, cx, cy, cz. split; [exact Ejs|]. split; [exact Ejc|]. split.
  - unfold run. rewrite Hc. cbn [negb]. rewrite Ej at 1. rewrite Es. cbn [pr_isize pr_ichunk].
    assert (Hfiles : existsb (fun dd => negb (d_files dd =? n)) (j_dirs j) = false).
    { rewrite Ejd. clear -Hdirs. induction (d0 :: dr) as [|x l IH]; [reflexivity|].
      cbn [forallb existsb] in *. apply andb_prop in Hdirs as [Hx Hl].
      repeat (apply andb_prop in Hx as [Hx ?]). rewrite Hx. cbn. apply IH. exact Hl. }
    rewrite Hfiles. rewrite Ejd at 1. exact Hrun.
  - split; [|split].
    + intros x y z c Hx Hy Hz Hcc. rewrite (Hpt x y z c Hx Hy Hz Hcc).
      rewrite Ejd. symmetry. apply Hdes.
    + exact Hcov.
    + rewrite Hlen. exact Hcount.
Qed.

Definition ras_example : job :=
  mkjob [65; 83; 82]%N 2 3 4 2 2 3 4
        [{| d_files := 2; d_h := 4; d_w := 3; d_ch := Some 3 |};
         {| d_files := 2; d_h := 4; d_w := 3; d_ch := None |}].

Lemma wf_nonvacuous : c15_wf ras_example = true /\ snd (run ras_example) = Ok tt /\
  read_back (fst (run ras_example)) 1 2 3 3 =
    Some {| s_dir := 1; s_file := 1; s_row := 3; s_col := 2; s_ch := 0 |}.
Proof. repeat split; vm_compute; reflexivity. Qed.

(* reversed slice axes (the case repaired by commit 6dd50ef): code LPI, three
   slices, depth 2 -- both groups are written and the slices come out reversed *)
Definition lpi_example : job :=
  mkjob [76; 80; 73]%N 2 2 3 2 2 2 1 [{| d_files := 3; d_h := 2; d_w := 2; d_ch := None |}].

Lemma reversed_example : c15_wf lpi_example = true /\
  map ck_coords (fst (run lpi_example)) = [(0, 2, 0, 2, 0, 2); (0, 2, 0, 2, 2, 3)] /\
  snd (run lpi_example) = Ok tt /\
  read_back (fst (run lpi_example)) 0 0 0 0 = Some {| s_dir := 0; s_file := 2; s_row := 1; s_col := 1; s_ch := 0 |} /\
  read_back (fst (run lpi_example)) 1 1 2 0 = Some {| s_dir := 0; s_file := 0; s_row := 0; s_col := 0; s_ch := 0 |}.
Proof. repeat split; vm_compute; reflexivity. Qed.

(* code RAI on a single 1 x 1 slice: the former failing witness now converts *)
Definition rai_example : job :=
  mkjob [82; 65; 73]%N 1 1 1 1 1 1 1 [{| d_files := 1; d_h := 1; d_w := 1; d_ch := None |}].
Lemma rai_example_ok : map ck_coords (fst (run rai_example)) = [(0, 1, 0, 1, 0, 1)] /\ snd (run rai_example) = Ok tt.
Proof. split; vm_compute; reflexivity. Qed.

(* ================= order of the slices of a directory ================= *)

Definition lex_le (a b : list N) : Prop := lex_leb a b = true.

Lemma lex_le_refl : forall a, lex_le a a.
Proof.
  unfold lex_le. induction a as [|x a IH]; [reflexivity|]. cbn [lex_leb].
  rewrite N.ltb_irrefl. exact IH.
Qed.

Lemma lex_le_total : forall a b, lex_le a b \/ lex_le b a.
Proof.
  unfold lex_le. induction a as [|x a IH]; intros [|y b]; cbn [lex_leb]; auto.
  destruct (N.ltb_spec x y), (N.ltb_spec y x); auto; try lia; apply IH.
Qed.

Lemma lex_le_antisym : forall a b, lex_le a b -> lex_le b a -> a = b.
Proof.
  unfold lex_le. induction a as [|x a IH]; intros [|y b] H1 H2; try reflexivity; try discriminate.
  cbn [lex_leb] in H1, H2.
  destruct (N.ltb_spec x y), (N.ltb_spec y x); try discriminate; try lia.
  assert (x = y) by lia. subst y. f_equal. apply IH; assumption.
Qed.

Lemma lex_le_trans : forall a b c, lex_le a b -> lex_le b c -> lex_le a c.
Proof.
  unfold lex_le. induction a as [|x a IH]; intros [|y b] [|z c] H1 H2; try reflexivity; try discriminate.
  cbn [lex_leb] in *.
  destruct (N.ltb_spec x y), (N.ltb_spec y x), (N.ltb_spec y z), (N.ltb_spec z y),
           (N.ltb_spec x z), (N.ltb_spec z x); try discriminate; try reflexivity; try lia.
  eapply IH; eassumption.
Qed.

Lemma lex_insert_perm : forall x l, Permutation (x :: l) (lex_insert x l).
Proof.
  intros x l. induction l as [|y r IH]; [reflexivity|]. cbn [lex_insert].
  destruct (lex_leb x y); [reflexivity|].
  eapply perm_trans; [apply perm_swap|]. apply perm_skip. exact IH.
Qed.

Lemma lex_sort_perm : forall l, Permutation l (lex_sort l).
Proof.
  induction l as [|x l IH]; [reflexivity|]. cbn [lex_sort fold_right].
  eapply perm_trans; [apply perm_skip; exact IH|]. apply lex_insert_perm.
Qed.

Lemma lex_insert_hdrel : forall a x l, lex_le a x -> HdRel lex_le a l -> HdRel lex_le a (lex_insert x l).
Proof.
  intros a x l Hax H. destruct l as [|y r]; cbn [lex_insert]; [constructor; exact Hax|].
  destruct (lex_leb x y); constructor; [exact Hax|]. inversion H; assumption.
Qed.

Lemma lex_insert_sorted : forall x l, Sorted lex_le l -> Sorted lex_le (lex_insert x l).
Proof.
  intros x l H. induction H as [|y r Hr IH Hhd]; cbn [lex_insert]; [repeat constructor|].
  destruct (lex_leb x y) eqn:E.
  - constructor; [constructor; assumption|]. constructor. exact E.
  - constructor; [exact IH|]. apply lex_insert_hdrel; [|exact Hhd].
    destruct (lex_le_total x y) as [H|H]; [unfold lex_le in H; congruence | exact H].
Qed.

Lemma lex_sort_sorted : forall l, Sorted lex_le (lex_sort l).
Proof.
  induction l as [|x l IH]; [constructor|]. cbn [lex_sort fold_right]. apply lex_insert_sorted. exact IH.
Qed.

(* a sorted list is determined by its elements *)
Lemma sorted_perm_unique : forall l1 l2, Sorted lex_le l1 -> Sorted lex_le l2 -> Permutation l1 l2 -> l1 = l2.
Proof.
  assert (Tr : Relations_1.Transitive lex_le) by (intros a b c; apply lex_le_trans).
  intros l1 l2 H1 H2. apply (Sorted_StronglySorted Tr) in H1. apply (Sorted_StronglySorted Tr) in H2.
  revert l2 H2. induction H1 as [|a l1 Hs1 IH Ha]; intros l2 H2 Hp.
  - apply Permutation_nil in Hp. subst. reflexivity.
  - destruct H2 as [|b l2 Hs2 Hb]; [apply Permutation_sym, Permutation_nil in Hp; discriminate|].
    assert (Hab : lex_le a b).
    { assert (Hin : In b (a :: l1)) by (eapply Permutation_in; [apply Permutation_sym; exact Hp | left; reflexivity]).
      destruct Hin as [<-|Hin]; [apply lex_le_refl|]. rewrite Forall_forall in Ha. apply Ha. exact Hin. }
    assert (Hba : lex_le b a).
    { assert (Hin : In a (b :: l2)) by (eapply Permutation_in; [exact Hp | left; reflexivity]).
      destruct Hin as [<-|Hin]; [apply lex_le_refl|]. rewrite Forall_forall in Hb. apply Hb. exact Hin. }
    pose proof (lex_le_antisym a b Hab Hba) as E. subst b. f_equal.
    apply IH; [exact Hs2|]. eapply Permutation_cons_inv. exact Hp.
Qed.

Lemma slice_order_spec : forall names,
  Permutation names (slice_order names) /\ Sorted lex_le (slice_order names) /\
  forall l, Permutation names l -> Sorted lex_le l -> l = slice_order names.
Proof.
  intro names. unfold slice_order. split; [apply lex_sort_perm|]. split; [apply lex_sort_sorted|].
  intros l Hp Hs. apply sorted_perm_unique; [exact Hs | apply lex_sort_sorted|].
  eapply perm_trans; [apply Permutation_sym; exact Hp | apply lex_sort_perm].
Qed.

(* numeric and lexicographic order differ: s1 s2 s9 s10 are read as s1 s10 s2 s9 *)
Lemma slice_order_example :
  slice_order [[115; 49]; [115; 50]; [115; 57]; [115; 49; 48]]%N
  = [[115; 49]; [115; 49; 48]; [115; 50]; [115; 57]]%N.
Proof. reflexivity. Qed.
