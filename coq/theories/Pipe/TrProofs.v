(* Proofs for Properties/C16.v. *)
From Coq Require Import NArith ZArith QArith List Bool Lia Field.
From NGS Require Import Val Ints MeLinks TrAffine.
Import ListNotations.

(* ================= half-voxel relation over any field ================= *)
Section AnyField.
  Variable F : Type.
  Variables (f0 f1 : F) (fadd fmul fsub : F -> F -> F) (fopp : F -> F)
            (fdiv : F -> F -> F) (finv : F -> F).
  Variable Fth : field_theory f0 f1 fadd fmul fsub fopp fdiv finv (@eq F).
  Add Field TrField : Fth.

  Local Infix "+" := fadd.
  Local Infix "*" := fmul.
  Local Infix "-" := fsub.
  Local Infix "/" := fdiv.
  Local Notation info_transform := (info_transform F fadd fmul fsub fdiv f1).
  Local Notation nifti_to_ng := (nifti_to_ng F fadd fmul fsub).
  Local Notation row_at := (row_at F fadd fmul).
  Local Notation centre_nm := (centre_nm F fadd fmul).

  (* [k] is the mm -> nm factor (10^6 in the code) and [half] the 0.5 of the
     code: the relation holds for ANY two elements, because the same [half]
     defines the centre of a voxel and the compensation *)
  Lemma half_voxel_generic : forall (k half : F) (a : mat4 F) (s i : vec3 F),
    fst (fst s) <> f0 -> snd (fst s) <> f0 -> snd s <> f0 ->
    let '(r1, r2, r3, r4) := a in
    let '(m1, m2, m3, m4) := info_transform k half a s in
    row_at m1 (centre_nm k half s i) = k * row_at r1 i /\
    row_at m2 (centre_nm k half s i) = k * row_at r2 i /\
    row_at m3 (centre_nm k half s i) = k * row_at r3 i.
  Proof.
    intros k half [[[[[[a11 a12] a13] t1] [[[a21 a22] a23] t2]] [[[a31 a32] a33] t3]] [[[l1 l2] l3] l4]]
           [[s1 s2] s3] [[i1 i2] i3] H1 H2 H3.
    cbn [fst snd] in H1, H2, H3.
    unfold TrAffine.info_transform, TrAffine.nifti_to_ng, TrAffine.scale_row, TrAffine.last_row,
           TrAffine.resolution_of, TrAffine.shift_row, TrAffine.row_at, TrAffine.centre_nm.
    cbv beta iota zeta.
    repeat split; field; auto.
  Qed.

  (* the documented contract of nifti_to_neuroglancer_transform on its own:
     the returned matrix at x + v/2 equals the given matrix at x *)
  Lemma nifti_to_ng_contract : forall (half : F) (m : mat4 F) (v x : vec3 F),
    let '(r1, r2, r3, r4) := m in
    let '(n1, n2, n3, n4) := nifti_to_ng half m v in
    let '(v1, v2, v3) := v in let '(x1, x2, x3) := x in
    let y := (x1 + half * v1, x2 + half * v2, x3 + half * v3) in
    row_at n1 y = row_at r1 x /\ row_at n2 y = row_at r2 x /\ row_at n3 y = row_at r3 x /\ n4 = r4.
  Proof.
    intros half [[[[[[a11 a12] a13] t1] [[[a21 a22] a23] t2]] [[[a31 a32] a33] t3]] r4]
           [[v1 v2] v3] [[x1 x2] x3].
    unfold TrAffine.nifti_to_ng, TrAffine.shift_row, TrAffine.row_at.
    cbv beta iota zeta.
    repeat split; ring.
  Qed.
End AnyField.

(* ================= the executable instance, over Q ================= *)

Lemma half_voxel_Q : forall (a : qmat) (s i : vec3 Q),
  ~ fst (fst s) == 0 -> ~ snd (fst s) == 0 -> ~ snd s == 0 ->
  let '(r1, r2, r3, r4) := a in
  let '(m1, m2, m3, m4) := q_info_transform a s in
  row_at Q Qplus Qmult m1 (centre_nm Q Qplus Qmult million qhalf s i) == million * row_at Q Qplus Qmult r1 i /\
  row_at Q Qplus Qmult m2 (centre_nm Q Qplus Qmult million qhalf s i) == million * row_at Q Qplus Qmult r2 i /\
  row_at Q Qplus Qmult m3 (centre_nm Q Qplus Qmult million qhalf s i) == million * row_at Q Qplus Qmult r3 i.
Proof.
  intros [[[[[[a11 a12] a13] t1] [[[a21 a22] a23] t2]] [[[a31 a32] a33] t3]] [[[l1 l2] l3] l4]]
         [[s1 s2] s3] [[i1 i2] i3] H1 H2 H3.
  cbn [fst snd] in H1, H2, H3.
  unfold q_info_transform, info_transform, nifti_to_ng, scale_row, last_row, resolution_of, shift_row,
         row_at, centre_nm, million, qhalf.
  cbv beta iota zeta.
  repeat split; field; auto.
Qed.

(* ================= info fields ================= *)

Lemma dtype_guess_holds_lemma : forall d,
  let '(g, imperfect) := guess_dtype d in
  is_ng_type g = true /\
  (imperfect = false -> g = d /\ holds_exactly d g = true) /\
  (imperfect = true -> g = NFloat32 /\ is_ng_type d = false).
Proof. destruct d; cbn; repeat split; intros; try reflexivity; discriminate. Qed.

(* which non-Neuroglancer types are nevertheless held exactly by float32 *)
Lemma imperfect_but_exact : forall d, is_ng_type d = false ->
  holds_exactly d NFloat32 = match d with NInt8 | NInt16 | NBool | NFloat16 => true | _ => false end.
Proof. destruct d; cbn; intro H; try reflexivity; discriminate. Qed.

Definition layout_ok (shape : list Z) (is_rgb : bool) : bool :=
  if is_rgb then (length shape =? 3)%nat else ((length shape =? 3)%nat || (length shape =? 4)%nat).

Definition expected_channels (shape : list Z) (is_rgb : bool) : Z :=
  if is_rgb then 3%Z else match shape with [_; _; _; c] => c | _ => 1%Z end.

Lemma info_fields_spec_lemma : forall shape is_rgb d vs gz,
  layout_ok shape is_rgb = true -> length vs = 3%nat ->
  exists i, info_assemble shape is_rgb d vs [] gz = Ok i /\
    if_size i = firstn 3 shape /\ length (if_size i) = 3%nat /\
    if_num_channels i = expected_channels shape is_rgb /\
    if_data_type i = fst (guess_dtype d) /\ if_imperfect i = snd (guess_dtype d) /\
    if_sharding i = None /\
    Forall2 (fun r v => r == v * million) (if_resolution i) vs.
Proof.
  intros shape is_rgb d vs gz Hl Hv.
  destruct vs as [|v1 [|v2 [|v3 [|? ?]]]]; try discriminate.
  unfold info_assemble. destruct (guess_dtype d) as [g imp] eqn:Eg.
  eexists. split; [reflexivity|]. cbn [if_size if_num_channels if_data_type if_imperfect if_sharding
                                         if_resolution fst snd].
  unfold layout_ok in Hl. destruct is_rgb.
  - destruct shape as [|a [|b [|c [|? ?]]]]; try discriminate.
    cbn -[Qred Qmult million]. repeat split; try reflexivity.
    repeat (constructor; [apply Qred_correct|]); constructor.
  - destruct shape as [|a [|b [|c [|e [|? ?]]]]]; try discriminate.
    + cbn -[Qred Qmult million]. repeat split; try reflexivity. repeat (constructor; [apply Qred_correct|]); constructor.
    + cbn -[Qred Qmult million]. repeat split; try reflexivity. repeat (constructor; [apply Qred_correct|]); constructor.
Qed.

(* sharding option: accepted exactly for three comma-separated integers in [0, 2^64) *)
Lemma sharding_spec_lemma : forall s gz so,
  parse_sharding s gz = Ok so ->
  exists a b c, split_comma s [] = [a; b; c] /\
    py_int a = Some (so_minishard so) /\ py_int b = Some (so_shard so) /\ py_int c = Some (so_preshift so) /\
    so_gzip so = gz /\
    (0 <= so_minishard so < two64z)%Z /\ (0 <= so_shard so < two64z)%Z /\ (0 <= so_preshift so < two64z)%Z.
Proof.
  intros s gz so H. unfold parse_sharding in H.
  destruct (split_comma s []) as [|a [|b [|c [|? ?]]]]; try discriminate.
  destruct (py_int a) as [m|] eqn:Ea; [|discriminate].
  destruct (py_int b) as [sh|] eqn:Eb; [|discriminate].
  destruct (py_int c) as [p|] eqn:Ec; [|discriminate].
  destruct ((m <? 0)%Z || (sh <? 0)%Z || (p <? 0)%Z) eqn:E1; [discriminate|].
  destruct ((two64z <=? m)%Z || (two64z <=? sh)%Z || (two64z <=? p)%Z) eqn:E2; [discriminate|].
  injection H as <-. exists a, b, c. cbn.
  apply orb_false_iff in E1 as [E1 E1c]. apply orb_false_iff in E1 as [E1a E1b].
  apply orb_false_iff in E2 as [E2 E2c]. apply orb_false_iff in E2 as [E2a E2b].
  apply Z.ltb_ge in E1a, E1b, E1c. apply Z.leb_gt in E2a, E2b, E2c.
  repeat split; auto.
Qed.

(* every failure of the option is the re-raised Exception, never another class *)
Lemma sharding_failure_class_lemma : forall s gz,
  (exists so, parse_sharding s gz = Ok so) \/ parse_sharding s gz = Crash RuntimeError.
Proof.
  intros s gz. unfold parse_sharding.
  destruct (split_comma s []) as [|a [|b [|c [|? ?]]]]; auto.
  destruct (py_int a), (py_int b), (py_int c); auto.
  destruct (_ || _ || _); auto. destruct (_ || _ || _); auto. left. eexists. reflexivity.
Qed.

(* ================= compact URL form ================= *)
Open Scope N_scope.

Lemma join_with_cons : forall sep x xs,
  join_with sep (x :: xs) = x ++ concat (map (fun r => sep :: r) xs).
Proof.
  intros sep x xs. revert x. induction xs as [|y ys IH]; intro x.
  - cbn. rewrite app_nil_r. reflexivity.
  - change (join_with sep (x :: y :: ys)) with (x ++ sep :: join_with sep (y :: ys)).
    rewrite IH. reflexivity.
Qed.

Lemma scan_tok : forall t rest cur row out, forallb tok_char t = true ->
  compact_scan (t ++ rest) (CTok cur row) out = compact_scan rest (CTok (rev t ++ cur) row) out.
Proof.
  induction t as [|c t IH]; intros rest cur row out H; [reflexivity|].
  cbn [forallb] in H. apply andb_prop in H as [Hc Ht].
  unfold tok_char in Hc. apply negb_true_iff in Hc.
  apply orb_false_iff in Hc as [Hc H93]. apply orb_false_iff in Hc as [H95 H91].
  cbn [List.app compact_scan]. rewrite H95, H93, H91.
  rewrite (IH rest (c :: cur) row out Ht). cbn [rev]. rewrite <- app_assoc. reflexivity.
Qed.

Lemma clean_nonempty : forall t, clean_token t = true -> t <> [] /\ forallb tok_char t = true.
Proof. intros [|c t] H; [discriminate|]. split; [discriminate | exact H]. Qed.

Lemma rev_nonempty : forall (t : list N), t <> [] -> exists c l, rev t ++ [] = c :: l.
Proof.
  intros t H. rewrite app_nil_r. destruct (rev t) as [|c l] eqn:E.
  - apply (f_equal (@rev N)) in E. rewrite rev_involutive in E. cbn in E. contradiction.
  - eauto.
Qed.

Lemma scan_row_tokens : forall toks rest row out, toks <> [] -> forallb clean_token toks = true ->
  compact_scan (join_with 95 toks ++ 93 :: rest) (CTok [] row) out
  = compact_scan rest CAfterRow ((rev row ++ toks) :: out).
Proof.
  induction toks as [|t toks IH]; intros rest row out Hne Hc; [contradiction|].
  cbn [forallb] in Hc. apply andb_prop in Hc as [Ht Hr].
  destruct (clean_nonempty t Ht) as [Htne Htc].
  destruct (rev_nonempty t Htne) as (c & l & E).
  destruct toks as [|t' r].
  - cbn [join_with]. rewrite (scan_tok t _ [] row out Htc). rewrite E.
    cbn [compact_scan N.eqb Pos.eqb].
    rewrite <- E, app_nil_r, rev_involutive. cbn [rev]. reflexivity.
  - change (join_with 95 (t :: t' :: r)) with (t ++ 95 :: join_with 95 (t' :: r)).
    rewrite <- app_assoc. rewrite (scan_tok t _ [] row out Htc). rewrite E.
    cbn [List.app compact_scan N.eqb Pos.eqb].
    rewrite <- E, app_nil_r, rev_involutive.
    rewrite (IH rest (t :: row) out); [|discriminate|exact Hr].
    cbn [rev]. rewrite <- app_assoc. reflexivity.
Qed.

Definition row_text (r : list jentry) : list N := bracket (join_with 95 (map entry_text r)).
Definition row_clean (r : list jentry) : bool := forallb clean_token (map entry_text r).

Lemma scan_row_body : forall r rest out, row_clean r = true ->
  compact_scan (join_with 95 (map entry_text r) ++ 93 :: rest) (CTok [] []) out
  = compact_scan rest CAfterRow (map entry_text r :: out).
Proof.
  intros r rest out Hc. destruct (map entry_text r) as [|t ts] eqn:E.
  - reflexivity.
  - rewrite (scan_row_tokens (t :: ts) rest [] out); [reflexivity|discriminate|].
    unfold row_clean in Hc. rewrite E in Hc. exact Hc.
Qed.

Lemma scan_first_row : forall r rest out, row_clean r = true ->
  compact_scan (row_text r ++ rest) CRowStart out = compact_scan rest CAfterRow (map entry_text r :: out).
Proof.
  intros r rest out Hc. unfold row_text, bracket.
  change ((91 :: join_with 95 (map entry_text r) ++ [93]) ++ rest)
    with (91 :: ((join_with 95 (map entry_text r) ++ [93]) ++ rest)).
  rewrite <- app_assoc. cbn [compact_scan N.eqb Pos.eqb]. apply scan_row_body. exact Hc.
Qed.

Lemma scan_next_row : forall r rest out, row_clean r = true ->
  compact_scan (95 :: row_text r ++ rest) CAfterRow out = compact_scan rest CAfterRow (map entry_text r :: out).
Proof.
  intros r rest out Hc. unfold row_text, bracket.
  change ((91 :: join_with 95 (map entry_text r) ++ [93]) ++ rest)
    with (91 :: ((join_with 95 (map entry_text r) ++ [93]) ++ rest)).
  rewrite <- app_assoc. cbn [compact_scan N.eqb Pos.eqb]. apply scan_row_body. exact Hc.
Qed.

Lemma scan_more_rows : forall rows out, forallb row_clean rows = true ->
  compact_scan (concat (map (fun r => 95 :: r) (map row_text rows)) ++ [93]) CAfterRow out
  = Some (rev out ++ map (map entry_text) rows).
Proof.
  induction rows as [|r rows IH]; intros out Hc.
  - cbn. rewrite app_nil_r. reflexivity.
  - cbn [forallb] in Hc. apply andb_prop in Hc as [Hr Hrs].
    cbn [map concat]. rewrite <- app_assoc.
    change ((95 :: row_text r) ++ concat (map (fun r0 => 95 :: r0) (map row_text rows)) ++ [93])
      with (95 :: row_text r ++ (concat (map (fun r0 => 95 :: r0) (map row_text rows)) ++ [93])).
    rewrite (scan_next_row r _ out Hr). rewrite (IH _ Hrs).
    cbn [rev map]. rewrite <- app_assoc. reflexivity.
Qed.

Lemma compact_parse_back_lemma : forall m, forallb row_clean m = true ->
  compact_parse (compact_json m) = Some (map (map entry_text) m).
Proof.
  intros m Hc. unfold compact_parse, compact_json, bracket.
  fold row_text. change (map (fun r => row_text r) m) with (map row_text m).
  destruct m as [|r rows]; [reflexivity|].
  cbn [forallb] in Hc. apply andb_prop in Hc as [Hr Hrs].
  cbn [map]. rewrite join_with_cons.
  cbn [compact_scan N.eqb Pos.eqb]. rewrite <- app_assoc.
  rewrite (scan_first_row r _ [] Hr). rewrite (scan_more_rows rows _ Hrs). reflexivity.
Qed.

(* integer-valued entries (text ending in ".0") print as Python prints the integer *)
Lemma integer_entries_lemma : forall e z,
  je_int e = Some z -> ends_dot0 (je_repr e) = true -> entry_text e = dec_of_Z z.
Proof. intros e z Hi Hd. unfold entry_text. rewrite Hi, Hd. reflexivity. Qed.

Lemma other_entries_lemma : forall e,
  je_int e = None \/ ends_dot0 (je_repr e) = false -> entry_text e = je_repr e.
Proof.
  intros e [H|H]; unfold entry_text; rewrite H; [reflexivity|].
  destruct (je_int e); reflexivity.
Qed.
Close Scope N_scope.
