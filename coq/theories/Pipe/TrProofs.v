(* Proofs for Properties/C16.v. *)
From Coq Require Import NArith ZArith QArith List Bool Lia Field.
From NGS Require Import Val Ints MeLinks TrAffine.
Import ListNotations.

(* ================= half-voxel relation over any field ================= *)
Section AnyField.
  Variable F : Type.
  Variables (f0 f1 : F) (fadd fmul fsub : F -> F -> F) (fopp : F -> F)
            (fdiv : F -> F -> F) (finv : F -> F).
  Variable Fth : field_theory f0 f1 fadd fmul fsub fopp fdiv finv (@eq F).
  Add Field TrField : Fth.

  Local Infix "+" := fadd.
  Local Infix "*" := fmul.
  Local Infix "-" := fsub.
  Local Infix "/" := fdiv.
  Local Notation info_transform := (info_transform F fadd fmul fsub fdiv f1).
  Local Notation nifti_to_ng := (nifti_to_ng F fadd fmul fsub).
  Local Notation row_at := (row_at F fadd fmul).
  Local Notation centre_nm := (centre_nm F fadd fmul).

  (* [k] is the mm -> nm factor (10^6 in the code), [half] any element with
     half + half = 1 (0.5 in the code) *)
  Lemma half_voxel_generic : forall (k half : F) (a : mat4 F) (s i : vec3 F),
    half + half = f1 ->
    fst (fst s) <> f0 -> snd (fst s) <> f0 -> snd s <> f0 ->
    let '(r1, r2, r3, r4) := a in
    let '(m1, m2, m3, m4) := info_transform k half a s in
    row_at m1 (centre_nm k half s i) = k * row_at r1 i /\
    row_at m2 (centre_nm k half s i) = k * row_at r2 i /\
    row_at m3 (centre_nm k half s i) = k * row_at r3 i.
  Proof.
    intros k half [[[[[[a11 a12] a13] t1] [[[a21 a22] a23] t2]] [[[a31 a32] a33] t3]] [[[l1 l2] l3] l4]]
           [[s1 s2] s3] [[i1 i2] i3] Hh H1 H2 H3.
    cbn [fst snd] in H1, H2, H3.
    unfold TrAffine.info_transform, TrAffine.nifti_to_ng, TrAffine.scale_row, TrAffine.last_row,
           TrAffine.resolution_of, TrAffine.shift_row, TrAffine.row_at, TrAffine.centre_nm.
    cbv beta iota zeta.
    repeat split.
    - transitivity (k * (a11 * i1 + a12 * i2 + a13 * i3 + t1) +
                    (half + half - f1) * k * (a11 + a12 + a13)); [field; auto|].
      rewrite Hh. ring.
    - transitivity (k * (a21 * i1 + a22 * i2 + a23 * i3 + t2) +
                    (half + half - f1) * k * (a21 + a22 + a23)); [field; auto|].
      rewrite Hh. ring.
    - transitivity (k * (a31 * i1 + a32 * i2 + a33 * i3 + t3) +
                    (half + half - f1) * k * (a31 + a32 + a33)); [field; auto|].
      rewrite Hh. ring.
  Qed.

  (* the documented contract of nifti_to_neuroglancer_transform on its own:
     the returned matrix at x + v/2 equals the given matrix at x *)
  Lemma nifti_to_ng_contract : forall (half : F) (m : mat4 F) (v x : vec3 F),
    let '(r1, r2, r3, r4) := m in
    let '(n1, n2, n3, n4) := nifti_to_ng half m v in
    let '(v1, v2, v3) := v in let '(x1, x2, x3) := x in
    let y := (x1 + half * v1, x2 + half * v2, x3 + half * v3) in
    row_at n1 y = row_at r1 x /\ row_at n2 y = row_at r2 x /\ row_at n3 y = row_at r3 x /\ n4 = r4.
  Proof.
    intros half [[[[[[a11 a12] a13] t1] [[[a21 a22] a23] t2]] [[[a31 a32] a33] t3]] r4]
           [[v1 v2] v3] [[x1 x2] x3].
    unfold TrAffine.nifti_to_ng, TrAffine.shift_row, TrAffine.row_at.
    cbv beta iota zeta.
    repeat split; ring.
  Qed.
End AnyField.

(* ================= the executable instance, over Q ================= *)

Lemma half_voxel_Q : forall (a : qmat) (s i : vec3 Q),
  ~ fst (fst s) == 0 -> ~ snd (fst s) == 0 -> ~ snd s == 0 ->
  let '(r1, r2, r3, r4) := a in
  let '(m1, m2, m3, m4) := q_info_transform a s in
  row_at Q Qplus Qmult m1 (centre_nm Q Qplus Qmult million qhalf s i) == million * row_at Q Qplus Qmult r1 i /\
  row_at Q Qplus Qmult m2 (centre_nm Q Qplus Qmult million qhalf s i) == million * row_at Q Qplus Qmult r2 i /\
  row_at Q Qplus Qmult m3 (centre_nm Q Qplus Qmult million qhalf s i) == million * row_at Q Qplus Qmult r3 i.
Proof.
  intros [[[[[[a11 a12] a13] t1] [[[a21 a22] a23] t2]] [[[a31 a32] a33] t3]] [[[l1 l2] l3] l4]]
         [[s1 s2] s3] [[i1 i2] i3] H1 H2 H3.
  cbn [fst snd] in H1, H2, H3.
  unfold q_info_transform, info_transform, nifti_to_ng, scale_row, last_row, resolution_of, shift_row,
         row_at, centre_nm, million, qhalf.
  cbv beta iota zeta.
  repeat split; field; auto.
Qed.

(* ================= info fields ================= *)

Lemma dtype_guess_holds_lemma : forall d,
  let '(g, imperfect) := guess_dtype d in
  is_ng_type g = true /\
  (imperfect = false -> g = d /\ holds_exactly d g = true) /\
  (imperfect = true -> g = NFloat32 /\ is_ng_type d = false).
Proof. destruct d; cbn; repeat split; intros; try reflexivity; discriminate. Qed.

(* which non-Neuroglancer types are nevertheless held exactly by float32 *)
Lemma imperfect_but_exact : forall d, is_ng_type d = false ->
  holds_exactly d NFloat32 = match d with NInt8 | NInt16 | NBool | NFloat16 => true | _ => false end.
Proof. destruct d; cbn; intro H; try reflexivity; discriminate. Qed.

Definition layout_ok (shape : list Z) (is_rgb : bool) : bool :=
  if is_rgb then (length shape =? 3)%nat else ((length shape =? 3)%nat || (length shape =? 4)%nat).

Definition expected_channels (shape : list Z) (is_rgb : bool) : Z :=
  if is_rgb then 3%Z else match shape with [_; _; _; c] => c | _ => 1%Z end.

Lemma info_fields_spec_lemma : forall shape is_rgb d vs gz,
  layout_ok shape is_rgb = true -> length vs = 3%nat ->
  exists i, info_assemble shape is_rgb d vs [] gz = Ok i /\
    if_size i = firstn 3 shape /\ length (if_size i) = 3%nat /\
    if_num_channels i = expected_channels shape is_rgb /\
    if_data_type i = fst (guess_dtype d) /\ if_imperfect i = snd (guess_dtype d) /\
    if_sharding i = None /\
    Forall2 (fun r v => r == v * million) (if_resolution i) vs.
Proof.
  intros shape is_rgb d vs gz Hl Hv.
  destruct vs as [|v1 [|v2 [|v3 [|? ?]]]]; try discriminate.
  unfold info_assemble. destruct (guess_dtype d) as [g imp] eqn:Eg.
  eexists. split; [reflexivity|]. cbn [if_size if_num_channels if_data_type if_imperfect if_sharding
                                         if_resolution fst snd].
  unfold layout_ok in Hl. destruct is_rgb.
  - destruct shape as [|a [|b [|c [|? ?]]]]; try discriminate.
    cbn. repeat split; try reflexivity.
    repeat constructor; apply Qred_correct.
  - destruct shape as [|a [|b [|c [|e [|? ?]]]]]; try discriminate.
    + cbn. repeat split; try reflexivity. repeat constructor; apply Qred_correct.
    + cbn. repeat split; try reflexivity. repeat constructor; apply Qred_correct.
Qed.

(* sharding option: accepted exactly for three comma-separated integers in [0, 2^64) *)
Lemma sharding_spec_lemma : forall s gz so,
  parse_sharding s gz = Ok so ->
  exists a b c, split_comma s [] = [a; b; c] /\
    py_int a = Some (so_minishard so) /\ py_int b = Some (so_shard so) /\ py_int c = Some (so_preshift so) /\
    so_gzip so = gz /\
    (0 <= so_minishard so < two64z)%Z /\ (0 <= so_shard so < two64z)%Z /\ (0 <= so_preshift so < two64z)%Z.
Proof.
  intros s gz so H. unfold parse_sharding in H.
  destruct (split_comma s []) as [|a [|b [|c [|? ?]]]]; try discriminate.
  destruct (py_int a) as [m|] eqn:Ea; [|discriminate].
  destruct (py_int b) as [sh|] eqn:Eb; [|discriminate].
  destruct (py_int c) as [p|] eqn:Ec; [|discriminate].
  destruct ((m <? 0)%Z || (sh <? 0)%Z || (p <? 0)%Z) eqn:E1; [discriminate|].
  destruct ((two64z <=? m)%Z || (two64z <=? sh)%Z || (two64z <=? p)%Z) eqn:E2; [discriminate|].
  injection H as <-. exists a, b, c. cbn.
  apply orb_false_iff in E1 as [E1 E1c]. apply orb_false_iff in E1 as [E1a E1b].
  apply orb_false_iff in E2 as [E2 E2c]. apply orb_false_iff in E2 as [E2a E2b].
  apply Z.ltb_ge in E1a, E1b, E1c. apply Z.leb_gt in E2a, E2b, E2c.
  repeat split; auto.
Qed.

(* every failure of the option is the re-raised Exception, never another class *)
Lemma sharding_failure_class_lemma : forall s gz,
  (exists so, parse_sharding s gz = Ok so) \/ parse_sharding s gz = Crash RuntimeError.
Proof.
  intros s gz. unfold parse_sharding.
  destruct (split_comma s []) as [|a [|b [|c [|? ?]]]]; auto.
  destruct (py_int a), (py_int b), (py_int c); auto.
  destruct (_ || _ || _); auto. destruct (_ || _ || _); auto. left. eexists. reflexivity.
Qed.
