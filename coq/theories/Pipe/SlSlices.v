(* Model of scripts/slices_to_precomputed.slices_to_raw_chunks (index
   arithmetic only) and of utils.permute / utils.invert_permutation, as coded
   today.  Voxel VALUES are not modelled: a chunk is a function from its local
   (c, z, y, x) index to the SOURCE of the voxel, i.e. which pixel of which
   input file it is read from; the harness supplies the pixels.

   Conventions of the script: the three letters of the code describe the
   input axes in the order (column, row, slice); sizes in the info are in
   (X, Y, Z) order; a block is indexed [channel, slice, row, column] and a
   chunk [channel, Z, Y, X]. *)
From Coq Require Import NArith ZArith List Bool Lia.
From NGS Require Import Val Ints.
From NGSGen Require Import Tables.
Import ListNotations.
Open Scope Z_scope.

(* ---------- small Python pieces ---------- *)

(* dict[key]: KeyError when absent *)
Fixpoint lookup (k : N) (t : list (N * Z)) : outcome Z :=
  match t with
  | [] => Crash KeyError
  | (k', v) :: r => if (k =? k')%N then Ok v else lookup k r
  end.
(* a later duplicate key of a dict literal wins: the dumper writes the dict in
   its final state, so first match = the only match *)

(* seq[i] with Python's negative indices: IndexError outside [-len, len) *)
Definition py_index {A} (l : list A) (i : Z) : outcome A :=
  let n := Z.of_nat (length l) in
  let j := if i <? 0 then i + n else i in
  if (j <? 0) || (n <=? j) then Crash IndexError
  else match nth_error l (Z.to_nat j) with Some a => Ok a | None => Crash IndexError end.

Fixpoint map_outcome {A B} (f : A -> outcome B) (l : list A) : outcome (list B) :=
  match l with
  | [] => Ok []
  | a :: r => bind (f a) (fun b => bind (map_outcome f r) (fun bs => Ok (b :: bs)))
  end.

(* utils.permute: tuple(seq[i] for i in p) *)
Definition permute {A} (seq : list A) (p : list Z) : outcome (list A) := map_outcome (py_index seq) p.

(* utils.invert_permutation: s = np.empty(n); s[p] = np.arange(n).  Entries of
   s that p does not hit stay uninitialised in NumPy; here they are None and
   reading one is reported as Crash IndexError (SlProofs shows it cannot
   happen for the tables of the package). *)
Fixpoint set_nth {A} (l : list A) (i : nat) (a : A) : list A :=
  match l, i with
  | [], _ => []
  | _ :: r, O => a :: r
  | x :: r, S k => x :: set_nth r k a
  end.
Fixpoint inv_fill (p : list Z) (k : Z) (s : list (option Z)) : outcome (list (option Z)) :=
  match p with
  | [] => Ok s
  | i :: r =>
      let n := Z.of_nat (length s) in
      let j := if i <? 0 then i + n else i in
      if (j <? 0) || (n <=? j) then Crash IndexError
      else inv_fill r (k + 1) (set_nth s (Z.to_nat j) (Some k))
  end.
Definition invert_permutation (p : list Z) : outcome (list Z) :=
  bind (inv_fill p 0 (repeat None (length p)))
       (map_outcome (fun o => match o with Some v => Ok v | None => Crash IndexError end)).

(* range(n) *)
Definition zrange (a n : Z) : list Z := map (fun i => a + Z.of_nat i) (seq 0 (Z.to_nat n)).

(* Indices selected by seq[start:stop:step] on a sequence of length len,
   for step = 1 or -1 (PySlice_AdjustIndices): negative bounds count from the
   end, then are clamped. *)
Definition adjust_bound (len step b : Z) : Z :=
  if b <? 0 then (let b' := b + len in if b' <? 0 then (if step <? 0 then -1 else 0) else b')
  else if len <=? b then (if step <? 0 then len - 1 else len)
  else b.
(* stop = None is the omitted bound of seq[start::step] / slice(start, None, step) *)
Definition slice_indices (len start : Z) (stop : option Z) (step : Z) : list Z :=
  let a := adjust_bound len step start in
  let b := match stop with
           | Some s => adjust_bound len step s
           | None => if step <? 0 then -1 else len
           end in
  if step =? 1 then zrange a (b - a)
  else if step =? -1 then map (fun i => a - i) (zrange 0 (a - b))
  else [].

(* ---------- order of the slices of one directory ---------- *)

(* convert_slices_in_directory: sorted(d.iterdir()) -- the stack order is the
   lexicographic order of the file names, compared element by element (bytes
   of the name; for str names Python compares code points, which is the same
   order on UTF-8 bytes), a proper prefix coming first. *)
Fixpoint lex_leb (a b : list N) : bool :=
  match a, b with
  | [], _ => true
  | _ :: _, [] => false
  | x :: a', y :: b' => if (x <? y)%N then true else if (y <? x)%N then false else lex_leb a' b'
  end.

Fixpoint lex_insert (x : list N) (l : list (list N)) : list (list N) :=
  match l with
  | [] => [x]
  | y :: r => if lex_leb x y then x :: l else y :: lex_insert x r
  end.

Definition lex_sort (l : list (list N)) : list (list N) := fold_right lex_insert [] l.

(* slice k of the stack of a directory is the k-th name of this list *)
Definition slice_order (names : list (list N)) : list (list N) := lex_sort names.

(* ---------- sources and arrays ---------- *)

Record src := { s_dir : Z; s_file : Z; s_row : Z; s_col : Z; s_ch : Z }.
(* an array indexed by four integers; None outside the data *)
Definition arr4 := Z -> Z -> Z -> Z -> option src.

(* one input directory: number of files, image height and width, and the
   number of channels of its images (None for 2-D grey-level images) *)
Record dirinfo := { d_files : Z; d_h : Z; d_w : Z; d_ch : option Z }.
Definition dir_channels (d : dirinfo) : Z := match d_ch d with Some k => k | None => 1 end.

(* load_z_stack: block[channel, j, row, column] of directory number di for
   the selected file indices *)
Definition load_block (di : Z) (d : dirinfo) (sel : list Z) : arr4 :=
  fun c j r col =>
    if (0 <=? j) && (0 <=? r) && (r <? d_h d) && (0 <=? col) && (col <? d_w d) &&
       (0 <=? c) && (c <? dir_channels d)
    then match nth_error sel (Z.to_nat j) with
         | Some f => Some {| s_dir := di; s_file := f; s_row := r; s_col := col; s_ch := c |}
         | None => None end
    else None.

(* np.concatenate(blocks, axis=0) *)
Fixpoint concat_channels (blocks : list (Z * arr4)) : arr4 :=   (* (channel count, block) *)
  match blocks with
  | [] => fun _ _ _ _ => None
  | (k, b) :: r => fun c j row col => if c <? k then (if 0 <=? c then b c j row col else None)
                                      else concat_channels r (c - k) j row col
  end.

(* a[::step] along an axis of length len, step = 1 or -1 *)
Definition flip_index (len step i : Z) : Z := if step =? -1 then len - 1 - i else i.

(* np.moveaxis(block, (3, 2, 1), (3 - p0, 3 - p1, 3 - p2)) where p = (p0, p1, p2):
   result[c, i1, i2, i3] reads block[c, slice, row, column] with
   column = i_(3 - p0), row = i_(3 - p1), slice = i_(3 - p2) *)
Definition pick3 (k : Z) (i1 i2 i3 : Z) : Z := if k =? 1 then i1 else if k =? 2 then i2 else i3.
Definition moveaxis_321 (p0 p1 p2 : Z) (b : arr4) : arr4 :=
  fun c i1 i2 i3 => b c (pick3 (3 - p2) i1 i2 i3) (pick3 (3 - p1) i1 i2 i3) (pick3 (3 - p0) i1 i2 i3).

Record chunk := {
  ck_coords : Z * Z * Z * Z * Z * Z;     (* xmin xmax ymin ymax zmin zmax *)
  ck_data : arr4                         (* local [c, z, y, x] *)
}.

Record job := {
  j_code : list N;
  j_size : list Z;          (* info scales[0].size, (X, Y, Z) *)
  j_chunk : list Z;         (* info scales[0].chunk_sizes[0] *)
  j_nch : Z;                (* info num_channels *)
  j_dirs : list dirinfo
}.

Definition get3 {A} (l : list A) : outcome (A * A * A) :=
  match l with [a; b; c] => Ok (a, b, c) | _ => Crash ValueError end.   (* tuple unpacking *)

(* ceil-style count used by every loop: (n - 1) // d + 1 *)
Definition n_chunks (n d : Z) : Z := (n - 1) / d + 1.

Record params := {
  pr_p : Z * Z * Z; pr_inv : Z * Z * Z; pr_q : list Z;
  pr_isize : Z * Z * Z;     (* (columns, rows, slices) *)
  pr_ichunk : Z * Z * Z
}.

Definition setup (j : job) : outcome params :=
  bind (map_outcome (fun a => lookup a axis_permutation_for_ras) (j_code j)) (fun p =>
  bind (map_outcome (fun a => lookup a axis_inversion_for_ras) (j_code j)) (fun inv =>
  bind (invert_permutation p) (fun q =>
  bind (permute (j_size j) p) (fun isize =>
  bind (permute (j_chunk j) p) (fun ichunk =>
  (* the loops index input_size[0..2], input_axis_inversions[0..2] *)
  bind (get3 p) (fun p3 => bind (get3 inv) (fun inv3 =>
  bind (get3 isize) (fun is3 => bind (get3 ichunk) (fun ic3 =>
  Ok {| pr_p := p3; pr_inv := inv3; pr_q := q; pr_isize := is3; pr_ichunk := ic3 |}))))))))).

(* the file indices read for slice group g:
     slice_slicing = np.s_[first_slice : last_slice if last_slice >= 0 else None : inv2] *)
Definition group_sel (nfiles n d inv2 g : Z) : list Z :=
  let first_o := d * g in
  let last_o := Z.min (d * (g + 1)) n in
  if inv2 =? -1 then
    let last := n - last_o - 1 in
    slice_indices nfiles (n - first_o - 1) (if 0 <=? last then Some last else None) inv2
  else slice_indices nfiles first_o (Some last_o) inv2.

(* the oriented block of one slice group: [c, Z, Y, X] *)
Definition group_block (pr : params) (dirs : list dirinfo) (g : Z) : arr4 :=
  let '(p0, p1, p2) := pr_p pr in
  let '(inv0, inv1, inv2) := pr_inv pr in
  let '(w, h, n) := pr_isize pr in
  let '(_, _, d) := pr_ichunk pr in
  let blocks := map (fun '(di, dd) => (dir_channels dd,
                                       load_block di dd (group_sel (d_files dd) n d inv2 g)))
                    (combine (zrange 0 (Z.of_nat (length dirs))) dirs) in
  let block := concat_channels blocks in
  (* block[:, :, ::inv1, ::inv0] *)
  let flipped : arr4 := fun c j r col => block c j (flip_index h inv1 r) (flip_index w inv0 col) in
  moveaxis_321 p0 p1 p2 flipped.

(* block[:, z_slicing, y_slicing, x_slicing] with slice starts (or None = 0) *)
Definition sub_block (b : arr4) (z0 y0 x0 : Z) : arr4 := fun c z y x => b c (z0 + z) (y0 + y) (x0 + x).

Definition chunk_of (pr : params) (block : arr4) (g ri ci : Z) : outcome chunk :=
  let '(w, h, n) := pr_isize pr in
  let '(cw, chh, d) := pr_ichunk pr in
  let col_rng := (cw * ci, Z.min (cw * (ci + 1)) w) in
  let row_rng := (chh * ri, Z.min (chh * (ri + 1)) h) in
  let sl_rng := (d * g, Z.min (d * (g + 1)) n) in
  (* permute(input_slicing, q), permute(input_coords, q); the slice entry of
     input_slicing is np.s_[:] (start 0) *)
  bind (permute [fst col_rng; fst row_rng; 0] (pr_q pr)) (fun starts =>
  bind (permute [col_rng; row_rng; sl_rng] (pr_q pr)) (fun coords =>
  match starts, coords with
  | [x0; y0; z0], [(xa, xb); (ya, yb); (za, zb)] =>
      Ok {| ck_coords := (xa, xb, ya, yb, za, zb); ck_data := sub_block block z0 y0 x0 |}
  | _, _ => Crash ValueError
  end)).

(* checks made while a group is loaded, in the order of the code *)
Fixpoint check_dirs (dirs : list dirinfo) (sels : list (list Z)) (w h : Z) : outcome unit :=
  match dirs, sels with
  | d :: r, sel :: rs =>
      match sel with
      | [] => Crash ValueError                         (* concatenate_images of nothing *)
      | _ => if negb (d_w d =? w) then Crash AssertionError
             else if negb (d_h d =? h) then Crash AssertionError
             else check_dirs r rs w h
      end
  | _, _ => Ok tt
  end.

Definition sumZl (l : list Z) : Z := fold_right Z.add 0 l.

(* the chunks of one group, row-chunk-major then column chunks; stops at the
   first failure, keeping what was written *)
Fixpoint write_chunks (pr : params) (block : arr4) (g : Z) (cells : list (Z * Z)) (nsel expect : Z)
         (done : list chunk) : list chunk * outcome unit :=
  match cells with
  | [] => (done, Ok tt)
  | (ri, ci) :: r =>
      (* assert chunk.size == product of the extents *)
      if negb (nsel =? expect) then (done, Crash AssertionError) else
      match chunk_of pr block g ri ci with
      | Ok ck => write_chunks pr block g r nsel expect (done ++ [ck])
      | FormatErr => (done, FormatErr) | InfoErr => (done, InfoErr) | AccessErr => (done, AccessErr)
      | IOErr => (done, IOErr) | Refused => (done, Refused) | Crash k => (done, Crash k)
      end
  end.

Definition cells_of (pr : params) : list (Z * Z) :=
  let '(w, h, _) := pr_isize pr in
  let '(cw, chh, _) := pr_ichunk pr in
  flat_map (fun ri => map (fun ci => (ri, ci)) (zrange 0 (n_chunks w cw))) (zrange 0 (n_chunks h chh)).

Fixpoint run_groups (pr : params) (j : job) (groups : list Z) (done : list chunk)
  : list chunk * outcome unit :=
  match groups with
  | [] => (done, Ok tt)
  | g :: r =>
      let '(w, h, n) := pr_isize pr in
      let '(_, _, d) := pr_ichunk pr in
      let '(_, _, inv2) := pr_inv pr in
      let sels := map (fun dd => group_sel (d_files dd) n d inv2 g) (j_dirs j) in
      match check_dirs (j_dirs j) sels w h with
      | Ok _ =>
          if negb (sumZl (map dir_channels (j_dirs j)) =? j_nch j) then (done, Crash AssertionError)
          else
            let nsel := match sels with s :: _ => Z.of_nat (length s) | [] => 0 end in
            let expect := Z.min (d * (g + 1)) n - d * g in
            match write_chunks pr (group_block pr (j_dirs j) g) g (cells_of pr) nsel expect done with
            | (done', Ok _) => run_groups pr j r done'
            | res => res
            end
      | FormatErr => (done, FormatErr) | InfoErr => (done, InfoErr) | AccessErr => (done, AccessErr)
      | IOErr => (done, IOErr) | Refused => (done, Refused) | Crash k => (done, Crash k)
      end
  end.

Definition code_eqb (a b : list N) : bool :=
  (length a =? length b)%nat && forallb (fun '(x, y) => (x =? y)%N) (combine a b).

(* main(): the (upper-cased) code must be one of the 48; then the conversion.
   Returns the chunks written (in order) and how the run ended. *)
Definition run (j : job) : list chunk * outcome unit :=
  if negb (existsb (code_eqb (j_code j)) possible_axis_orientations) then ([], Refused) else
  match setup j with
  | Ok pr =>
      let '(_, _, n) := pr_isize pr in
      let '(_, _, d) := pr_ichunk pr in
      (* every directory must hold input_size[2] files *)
      if existsb (fun dd => negb (d_files dd =? n)) (j_dirs j) then ([], Crash ValueError)
      else match j_dirs j with
           | [] => if 0 <? n_chunks n d then ([], Crash ValueError) (* np.concatenate([]) *)
                   else ([], Ok tt)
           | _ => run_groups pr j (zrange 0 (n_chunks n d)) []
           end
  | FormatErr => ([], FormatErr) | InfoErr => ([], InfoErr) | AccessErr => ([], AccessErr)
  | IOErr => ([], IOErr) | Refused => ([], Refused) | Crash k => ([], Crash k)
  end.

(* ---------- reading the dataset back ---------- *)

Definition in_chunk (ck : chunk) (x y z : Z) : bool :=
  let '(xa, xb, ya, yb, za, zb) := ck_coords ck in
  (xa <=? x) && (x <? xb) && (ya <=? y) && (y <? yb) && (za <=? z) && (z <? zb).

(* the file written last for a position wins *)
Definition read_back (ds : list chunk) (x y z c : Z) : option src :=
  match find (fun ck => in_chunk ck x y z) (rev ds) with
  | Some ck => let '(xa, _, ya, _, za, _) := ck_coords ck in ck_data ck c (z - za) (y - ya) (x - xa)
  | None => None
  end.

(* ---------- specification: what the code letters mean ---------- *)

(* R/L: the axis runs along X, towards +X (R) or -X (L); A/P: Y; S/I: Z *)
Definition letter_axis (l : N) : option nat :=
  if ((l =? 82) || (l =? 76))%N then Some 0%nat
  else if ((l =? 65) || (l =? 80))%N then Some 1%nat
  else if ((l =? 83) || (l =? 73))%N then Some 2%nat else None.
Definition letter_positive (l : N) : bool := ((l =? 82) || (l =? 65) || (l =? 83))%N.

(* coordinate along the input axis described by letter l of the voxel at
   RAS position u in a volume of the given size *)
Definition along (l : N) (size u : Z * Z * Z) : option Z :=
  let '(sx, sy, sz) := size in let '(x, y, z) := u in
  match letter_axis l with
  | Some 0%nat => Some (if letter_positive l then x else sx - 1 - x)
  | Some 1%nat => Some (if letter_positive l then y else sy - 1 - y)
  | Some _ => Some (if letter_positive l then z else sz - 1 - z)
  | None => None
  end.

(* which directory and which of its channels output channel c comes from *)
Fixpoint channel_source (dirs : list dirinfo) (di c : Z) : option (Z * Z) :=
  match dirs with
  | [] => None
  | d :: r => if c <? dir_channels d then Some (di, c) else channel_source r (di + 1) (c - dir_channels d)
  end.

Definition designated (code : list N) (size : Z * Z * Z) (dirs : list dirinfo) (x y z c : Z) : option src :=
  match code with
  | [l0; l1; l2] =>
      match along l0 size (x, y, z), along l1 size (x, y, z), along l2 size (x, y, z),
            channel_source dirs 0 c with
      | Some col, Some row, Some sl, Some (di, ch) =>
          Some {| s_dir := di; s_file := sl; s_row := row; s_col := col; s_ch := ch |}
      | _, _, _, _ => None
      end
  | _ => None
  end.

(* ---------- well-formed jobs ---------- *)
Definition input_size_of (code : list N) (size : Z * Z * Z) : option (Z * Z * Z) :=   (* (w, h, n) *)
  let '(sx, sy, sz) := size in
  let ext l := match letter_axis l with Some 0%nat => Some sx | Some 1%nat => Some sy
                                   | Some _ => Some sz | None => None end in
  match code with
  | [l0; l1; l2] => match ext l0, ext l1, ext l2 with
                    | Some a, Some b, Some c => Some (a, b, c) | _, _, _ => None end
  | _ => None
  end.

(* the input really is a stack of the announced size *)
Definition job_wf (j : job) : bool :=
  match j_size j, j_chunk j with
  | [sx; sy; sz], [cx; cy; cz] =>
      (0 <? sx) && (0 <? sy) && (0 <? sz) && (0 <? cx) && (0 <? cy) && (0 <? cz) &&
      match input_size_of (j_code j) (sx, sy, sz) with
      | Some (w, h, n) =>
          match j_dirs j with [] => false | _ => true end &&
          forallb (fun d => (d_files d =? n) && (d_w d =? w) && (d_h d =? h) && (0 <? dir_channels d)) (j_dirs j) &&
          (sumZl (map dir_channels (j_dirs j)) =? j_nch j)
      | None => false
      end
  | _, _ => false
  end.

(* a code of the table and an input that really is a stack of the announced size *)
Definition c15_wf (j : job) : bool :=
  existsb (code_eqb (j_code j)) possible_axis_orientations && job_wf j.
