(* scripts/link_mesh_fragments.make_mesh_fragment_links on parsed CSV rows
   (csv.reader is an external component: the harness writes the table with
   csv.writer and the rows are what it wrote), ASCII cells.  For every row:
   label = int(row[0]); the cells that follow are the fragment names; a file
   <mesh dir>/<label>:0 (or <label>) receives
   json.dumps({"fragments": [...]}, separators=(",", ":")).
   An independent reader of that JSON text is given as the specification. *)
From Coq Require Import NArith ZArith List Bool Lia.
From NGS Require Import Val Ints.
Import ListNotations.
Open Scope N_scope.

(* ---------- int(str) on ASCII text ---------- *)
Definition c_space (c : N) : bool := ((9 <=? c) && (c <=? 13)) || (c =? 32).
Definition is_digit (c : N) : bool := (48 <=? c) && (c <=? 57).

Fixpoint lstrip (l : list N) : list N :=
  match l with c :: r => if c_space c then lstrip r else l | [] => [] end.
Definition strip (l : list N) : list N := rev (lstrip (rev (lstrip l))).

(* digits with single underscores between digits; [prev_digit] tells whether
   the previous character was a digit *)
Fixpoint digits_val (l : list N) (prev_digit : bool) (acc : N) : option N :=
  match l with
  | [] => if prev_digit then Some acc else None
  | c :: r =>
      if is_digit c then digits_val r true (10 * acc + (c - 48))
      else if (c =? 95) && prev_digit then digits_val r false acc
      else None
  end.

Definition py_int (s : list N) : option Z :=
  match strip s with
  | 45 :: r => option_map (fun n => (- Z.of_N n)%Z) (digits_val r false 0)
  | 43 :: r => option_map Z.of_N (digits_val r false 0)
  | r => option_map Z.of_N (digits_val r false 0)
  end.

(* ---------- str(int) ---------- *)
Fixpoint dec_pos (fuel : nat) (n : N) (acc : list N) : list N :=
  match fuel with
  | O => acc
  | S f => if n =? 0 then acc else dec_pos f (n / 10) (48 + n mod 10 :: acc)
  end.
Definition dec_of_N (n : N) : list N :=
  if n =? 0 then [48] else dec_pos (S (N.to_nat (N.log2 n))) n [].
Definition dec_of_Z (z : Z) : list N :=
  if (z <? 0)%Z then 45 :: dec_of_N (Z.to_N (- z)) else dec_of_N (Z.to_N z).

(* ---------- json.dumps of an ASCII string (ensure_ascii) ---------- *)
Definition hexd (d : N) : N := if d <? 10 then 48 + d else 87 + d.
Definition json_char (c : N) : list N :=
  if c =? 34 then [92; 34] else if c =? 92 then [92; 92]
  else if c =? 10 then [92; 110] else if c =? 13 then [92; 114]
  else if c =? 9 then [92; 116] else if c =? 8 then [92; 98] else if c =? 12 then [92; 102]
  else if (32 <=? c) && (c <=? 126) then [c]
  else [92; 117; 48; 48; hexd (c / 16); hexd (c mod 16)].
Definition json_string (s : list N) : list N := 34 :: flat_map json_char s ++ [34].

Fixpoint json_strings (l : list (list N)) : list N :=
  match l with
  | [] => []
  | [s] => json_string s
  | s :: r => json_string s ++ 44 :: json_strings r
  end.

(* {"fragments":[ ... ]} *)
Definition links_prefix : list N := [123;34;102;114;97;103;109;101;110;116;115;34;58;91].
Definition links_json (frags : list (list N)) : list N :=
  links_prefix ++ json_strings frags ++ [93; 125].

(* ---------- the command's loop ---------- *)
Fixpoint split_slash (l cur : list N) : list (list N) :=
  match l with
  | [] => [rev cur]
  | c :: r => if c =? 47 then rev cur :: split_slash r [] else split_slash r (c :: cur)
  end.
Definition bytes_eq (a b : list N) : bool :=
  (length a =? length b)%nat && forallb (fun '(x, y) => x =? y) (combine a b).
(* pathlib: ".." in (base / relative).relative_to(base).parts *)
Definition has_dotdot (name : list N) : bool := existsb (bytes_eq [46; 46]) (split_slash name []).

Definition link_name (mesh_dir : list N) (no_colon : bool) (label : Z) : list N :=
  mesh_dir ++ [47] ++ dec_of_Z label ++ (if no_colon then [] else [58; 48]).

Definition file : Type := (list N * list N)%type.   (* relative name, content *)

(* returns the files stored so far (in order) and how the loop ended *)
Fixpoint make_links (mesh_dir : list N) (no_colon : bool) (existing : list (list N))
         (rows : list (list (list N))) (done : list file) : list file * outcome unit :=
  match rows with
  | [] => (rev done, Ok tt)
  | [] :: _ => (rev done, Crash IndexError)                (* line[0] on a blank line *)
  | (c :: frags) :: r =>
      match py_int c with
      | None => (rev done, Crash ValueError)
      | Some label =>
          if existsb has_dotdot frags || has_dotdot mesh_dir then (rev done, Crash ValueError) else
          let name := link_name mesh_dir no_colon label in
          (* store_file(..., overwrite=False): mode "xb" *)
          if existsb (bytes_eq name) (existing ++ map fst done) then (rev done, AccessErr) else
          make_links mesh_dir no_colon existing r ((name, links_json frags) :: done)
      end
  end.

(* ---------- specification reader of a fragment-link file ---------- *)
Definition unhexd (c : N) : option N :=
  if (48 <=? c) && (c <=? 57) then Some (c - 48)
  else if (97 <=? c) && (c <=? 102) then Some (c - 87)
  else if (65 <=? c) && (c <=? 70) then Some (c - 55) else None.

Inductive lmode :=
| LmStart            (* after '[': a string or ']' *)
| LmStr (acc : list N)
| LmAfterStr         (* ',' or ']' *)
| LmAfterComma       (* a string *)
| LmClose            (* '}' *)
| LmEnd.

Fixpoint links_scan (l : list N) (m : lmode) (out : list (list N)) : option (list (list N)) :=
  match m, l with
  | LmEnd, [] => Some (rev out)
  | LmEnd, _ => None
  | _, [] => None
  | LmStart, c :: r => if c =? 34 then links_scan r (LmStr []) out
                       else if c =? 93 then links_scan r LmClose out else None
  | LmAfterComma, c :: r => if c =? 34 then links_scan r (LmStr []) out else None
  | LmAfterStr, c :: r => if c =? 44 then links_scan r LmAfterComma out
                          else if c =? 93 then links_scan r LmClose out else None
  | LmClose, c :: r => if c =? 125 then links_scan r LmEnd out else None
  | LmStr acc, c :: r =>
      if c =? 34 then links_scan r LmAfterStr (rev acc :: out)
      else if c =? 92 then
        match r with
        | e :: r' =>
            if e =? 34 then links_scan r' (LmStr (34 :: acc)) out
            else if e =? 92 then links_scan r' (LmStr (92 :: acc)) out
            else if e =? 47 then links_scan r' (LmStr (47 :: acc)) out
            else if e =? 98 then links_scan r' (LmStr (8 :: acc)) out
            else if e =? 102 then links_scan r' (LmStr (12 :: acc)) out
            else if e =? 110 then links_scan r' (LmStr (10 :: acc)) out
            else if e =? 114 then links_scan r' (LmStr (13 :: acc)) out
            else if e =? 116 then links_scan r' (LmStr (9 :: acc)) out
            else if e =? 117 then
              match r' with
              | h3 :: h2 :: h1 :: h0 :: r'' =>
                  match unhexd h3, unhexd h2, unhexd h1, unhexd h0 with
                  | Some a, Some b, Some c', Some d =>
                      links_scan r'' (LmStr (4096 * a + 256 * b + 16 * c' + d :: acc)) out
                  | _, _, _, _ => None end
              | _ => None end
            else None
        | [] => None end
      else if c <? 32 then None           (* raw control characters are not JSON *)
      else links_scan r (LmStr (c :: acc)) out
  end.

Fixpoint strip_prefix (p l : list N) : option (list N) :=
  match p, l with
  | [], _ => Some l
  | a :: p', b :: l' => if a =? b then strip_prefix p' l' else None
  | _ :: _, [] => None
  end.

Definition spec_read_links (b : list N) : option (list (list N)) :=
  match strip_prefix links_prefix b with
  | Some r => links_scan r LmStart []
  | None => None
  end.

Definition ascii_cell (s : list N) : bool := forallb (fun c => c <? 128) s.
