(* Model of mesh.save_mesh_as_precomputed / mesh.read_precomputed_mesh as they
   are coded today, and an independent specification parser written from the
   Neuroglancer precomputed mesh-fragment format:

     uint32le  num_vertices
     float32le[3 * num_vertices]   vertex positions (x, y, z), in nanometres
     uint32le [3 * num_triangles]  vertex indices, up to the end of the file;
                                   every index is < num_vertices

   Vertex coordinates are carried as raw float32 bit patterns (N below 2^32):
   the byte layout does not depend on their numerical meaning. *)
From Coq Require Import NArith List Bool Lia.
From NGS Require Import Val Ints.
Import ListNotations.
Open Scope N_scope.

Definition two32 : N := 4294967296.

Definition tri : Type := (N * N * N)%type.

Definition le32 (n : N) : list N :=
  [n mod 256; (n / 256) mod 256; (n / 65536) mod 256; (n / 16777216) mod 256].
Definition unle32 (b0 b1 b2 b3 : N) : N := b0 + 256 * b1 + 65536 * b2 + 16777216 * b3.

Definition enc_tri (t : tri) : list N :=
  let '(a, b, c) := t in le32 a ++ le32 b ++ le32 c.
Definition enc_tris (l : list tri) : list N := flat_map enc_tri l.

(* ---------- writer ---------- *)

(* vertices.astype("<f").tobytes(order="C") and
   triangles.astype("<I", casting="safe").tobytes(order="C") after the header *)
Definition write_bytes (v t : list tri) : list N :=
  le32 (lenN v) ++ enc_tris v ++ enc_tris t.

(* dtype of the triangle array offered to the writer: the "safe" casting rule
   of astype refuses everything that is not an unsigned type of at most 32
   bits (or bool). *)
Inductive idx_dtype := DBool | DU8 | DU16 | DU32 | DU64 | DI8 | DI16 | DI32 | DI64 | DF32 | DF64.
Definition safe_to_u32 (d : idx_dtype) : bool :=
  match d with DBool | DU8 | DU16 | DU32 => true | _ => false end.

(* assert vertices.ndim == 2; assert triangles.ndim == 2;
   assert triangles.shape[1] == 3   (the vertex column count is NOT checked) *)
Definition writer_precheck (v_ndim t_ndim t_cols : N) : outcome unit :=
  if negb (v_ndim =? 2) then Crash AssertionError else
  if negb (t_ndim =? 2) then Crash AssertionError else
  if negb (t_cols =? 3) then Crash AssertionError else Ok tt.

Definition write_mesh (d : idx_dtype) (v t : list tri) : outcome (list N) :=
  if two32 <=? lenN v then Crash StructError       (* struct.pack("<I", n) *)
  else if negb (safe_to_u32 d) then Crash TypeError (* raised after header and vertices were written *)
  else Ok (write_bytes v t).
(* what has reached the file when write_mesh ends in Crash TypeError *)
Definition written_before_type_error (v : list tri) : list N := le32 (lenN v) ++ enc_tris v.

(* ---------- reader, as coded ---------- *)

(* np.frombuffer(buf, "<f" / "<I") reshaped to (-1, 3), on a buffer whose
   length is a multiple of 12 *)
Fixpoint dec_triples (l : list N) : list tri :=
  match l with
  | a0 :: a1 :: a2 :: a3 :: b0 :: b1 :: b2 :: b3 :: c0 :: c1 :: c2 :: c3 :: r =>
      (unle32 a0 a1 a2 a3, unle32 b0 b1 b2 b3, unle32 c0 c1 c2 c3) :: dec_triples r
  | _ => []
  end.

(* np.any(triangles >= num_vertices) *)
Definition refs_beyond (nv : N) (t : tri) : bool :=
  let '(a, b, c) := t in (nv <=? a) || (nv <=? b) || (nv <=? c).

Definition read_mesh (b : list N) : outcome (list tri * list tri) :=
  match b with
  | h0 :: h1 :: h2 :: h3 :: rest =>
      let nv := unle32 h0 h1 h2 h3 in
      (* buf = file.read(12 * nv); if len(buf) != 12 * nv: raise *)
      if lenN rest <? 12 * nv then FormatErr else
      let vb := firstn (N.to_nat (12 * nv)) rest in
      let tb := skipn (N.to_nat (12 * nv)) rest in
      if negb (lenN tb mod 12 =? 0) then FormatErr else
      let ts := dec_triples tb in
      if existsb (refs_beyond nv) ts then FormatErr else Ok (dec_triples vb, ts)
  | _ => FormatErr               (* header = file.read(4); len(header) != 4 *)
  end.

(* ---------- specification parser (format document) ---------- *)

Fixpoint spec_verts (b : list N) (n : N) : option (list tri * list N) :=
  match b with
  | a0 :: a1 :: a2 :: a3 :: b0 :: b1 :: b2 :: b3 :: c0 :: c1 :: c2 :: c3 :: r =>
      if n =? 0 then Some ([], b) else
      match spec_verts r (n - 1) with
      | Some (l, r') => Some ((unle32 a0 a1 a2 a3, unle32 b0 b1 b2 b3, unle32 c0 c1 c2 c3) :: l, r')
      | None => None
      end
  | _ => if n =? 0 then Some ([], b) else None
  end.

(* [ok] is the admissibility test of one index: the format says index < count *)
Fixpoint spec_tris (ok : N -> bool) (b : list N) : option (list tri) :=
  match b with
  | [] => Some []
  | a0 :: a1 :: a2 :: a3 :: b0 :: b1 :: b2 :: b3 :: c0 :: c1 :: c2 :: c3 :: r =>
      let a := unle32 a0 a1 a2 a3 in
      let b' := unle32 b0 b1 b2 b3 in
      let c := unle32 c0 c1 c2 c3 in
      if ok a && ok b' && ok c then
        match spec_tris ok r with Some l => Some ((a, b', c) :: l) | None => None end
      else None
  | _ => None
  end.

Definition spec_parse_with (ok : N -> N -> bool) (b : list N) : option (list tri * list tri) :=
  match b with
  | h0 :: h1 :: h2 :: h3 :: rest =>
      let nv := unle32 h0 h1 h2 h3 in
      match spec_verts rest nv with
      | Some (vs, r) =>
          match spec_tris (ok nv) r with Some ts => Some (vs, ts) | None => None end
      | None => None
      end
  | _ => None
  end.

Definition spec_parse : list N -> option (list tri * list tri) :=
  spec_parse_with (fun nv i => i <? nv).

(* ---------- the property on one byte string ---------- *)

(* "reads back what the format says, and rejects everything else with the
   mesh-data error" *)
Definition reader_conforms (b : list N) : Prop :=
  read_mesh b = match spec_parse b with Some m => Ok m | None => FormatErr end.

(* well-formed mesh of the property statement *)
Definition word_ok (n : N) : bool := n <? two32.
Definition tri_all (p : N -> bool) (t : tri) : bool := let '(a, b, c) := t in p a && p b && p c.
Definition mesh_wf (v t : list tri) : bool :=
  (lenN v <? two32) && forallb (tri_all word_ok) v && forallb (tri_all (fun i => i <? lenN v)) t.
