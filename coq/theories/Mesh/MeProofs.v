(* Proofs for Properties/C17.v. *)
From Coq Require Import NArith ZArith List Bool Lia Ring ZifyBool ZifyNat ZifyN.
From NGS Require Import Val Ints MePrecomputed MeAffine MeVtk MeLinks.
Import ListNotations.
Open Scope N_scope.
Ltac Zify.zify_post_hook ::= Z.to_euclidean_division_equations.

(* ================= precomputed format ================= *)

Lemma unle32_le32 : forall n, n < two32 ->
  unle32 (n mod 256) ((n / 256) mod 256) ((n / 65536) mod 256) ((n / 16777216) mod 256) = n.
Proof. intros n H. unfold unle32, two32 in *. lia. Qed.

Lemma le32_unle32 : forall a b c d, a < 256 -> b < 256 -> c < 256 -> d < 256 ->
  le32 (unle32 a b c d) = [a; b; c; d].
Proof.
  intros a b c d Ha Hb Hc Hd. unfold le32, unle32.
  repeat f_equal; lia.
Qed.

Lemma unle32_lt : forall a b c d, a < 256 -> b < 256 -> c < 256 -> d < 256 ->
  unle32 a b c d < two32.
Proof. intros. unfold unle32, two32. lia. Qed.

Lemma lenN_cons : forall {A} (a : A) l, lenN (a :: l) = 1 + lenN l.
Proof. intros. unfold lenN. cbn [length]. lia. Qed.

Lemma lenN_nil : forall {A}, lenN (@nil A) = 0.
Proof. reflexivity. Qed.

Lemma lenN_app : forall {A} (l r : list A), lenN (l ++ r) = lenN l + lenN r.
Proof. intros. unfold lenN. rewrite app_length. lia. Qed.

Lemma succ_eqb_0 : forall k, (N.succ k =? 0) = false.
Proof. intro k. apply N.eqb_neq. lia. Qed.

Lemma to_nat_12_succ : forall k, N.to_nat (12 * N.succ k) = (12 + N.to_nat (12 * k))%nat.
Proof. intro k. lia. Qed.

(* the specification's vertex reader = the reader's read-and-slice *)
Lemma spec_verts_char : forall n rest,
  spec_verts rest n =
  if lenN rest <? 12 * n then None
  else Some (dec_triples (firstn (N.to_nat (12 * n)) rest), skipn (N.to_nat (12 * n)) rest).
Proof.
  induction n as [|k IH] using N.peano_ind; intro rest.
  - replace (12 * 0) with 0 by lia.
    assert (Hl : (lenN rest <? 0) = false) by (apply N.ltb_ge; lia).
    rewrite Hl. change (N.to_nat 0) with 0%nat. cbn [firstn skipn dec_triples].
    do 12 (destruct rest as [|? rest]; [reflexivity|]). reflexivity.
  - do 12 (destruct rest as [|? rest];
           [ cbn [spec_verts]; rewrite succ_eqb_0;
             match goal with |- None = (if ?c then _ else _) =>
               assert (Hc : c = true) by (apply N.ltb_lt; repeat rewrite lenN_cons; try rewrite lenN_nil; lia);
               rewrite Hc; reflexivity end | ]).
    cbn [spec_verts]. rewrite succ_eqb_0.
    replace (N.succ k - 1) with k by lia. rewrite IH.
    rewrite to_nat_12_succ. cbn [Nat.add firstn skipn dec_triples].
    repeat rewrite lenN_cons.
    destruct (N.ltb_spec (lenN rest) (12 * k)) as [H|H].
    + assert (Hc : (1 + (1 + (1 + (1 + (1 + (1 + (1 + (1 + (1 + (1 + (1 + (1 + lenN rest)))))))))))
                    <? 12 * N.succ k) = true) by (apply N.ltb_lt; lia).
      rewrite Hc. reflexivity.
    + assert (Hc : (1 + (1 + (1 + (1 + (1 + (1 + (1 + (1 + (1 + (1 + (1 + (1 + lenN rest)))))))))))
                    <? 12 * N.succ k) = false) by (apply N.ltb_ge; lia).
      rewrite Hc. reflexivity.
Qed.

Lemma spec_tris_char_aux : forall ok n b, (length b <= n)%nat ->
  spec_tris ok b =
  if lenN b mod 12 =? 0
  then (if forallb (tri_all ok) (dec_triples b) then Some (dec_triples b) else None)
  else None.
Proof.
  intros ok n. induction n as [|n IH]; intros b Hlen.
  - destruct b; [reflexivity | cbn in Hlen; lia].
  - destruct b as [|x0 b]; [reflexivity|].
    do 11 (destruct b as [|? b];
           [ cbn [spec_tris];
             match goal with |- None = (if ?c then _ else _) =>
               assert (Hc : c = false) by (apply N.eqb_neq; repeat rewrite lenN_cons; rewrite lenN_nil; lia);
               rewrite Hc; reflexivity end | ]).
    cbn [spec_tris dec_triples forallb tri_all].
    rewrite (IH b) by (cbn [length] in Hlen; lia).
    repeat rewrite lenN_cons.
    replace ((1 + (1 + (1 + (1 + (1 + (1 + (1 + (1 + (1 + (1 + (1 + (1 + lenN b)))))))))))) mod 12)
      with (lenN b mod 12) by lia.
    destruct (lenN b mod 12 =? 0).
    + destruct (ok (unle32 x0 n0 n1 n2) && ok (unle32 n3 n4 n5 n6) && ok (unle32 n7 n8 n9 n10)); [|reflexivity].
      cbn [andb]. destruct (forallb (tri_all ok) (dec_triples b)); reflexivity.
    + destruct (ok (unle32 x0 n0 n1 n2) && ok (unle32 n3 n4 n5 n6) && ok (unle32 n7 n8 n9 n10)); reflexivity.
Qed.

Lemma spec_tris_char : forall ok b,
  spec_tris ok b =
  if lenN b mod 12 =? 0
  then (if forallb (tri_all ok) (dec_triples b) then Some (dec_triples b) else None)
  else None.
Proof. intros. apply (spec_tris_char_aux ok (length b)). lia. Qed.

Lemma refs_beyond_lt : forall nv ts,
  existsb (refs_beyond nv) ts = negb (forallb (tri_all (fun i => i <? nv)) ts).
Proof.
  intros nv ts. induction ts as [|[[a b] c] ts IH]; [reflexivity|].
  cbn [existsb forallb refs_beyond tri_all]. rewrite IH.
  destruct (N.leb_spec nv a), (N.leb_spec nv b), (N.leb_spec nv c),
           (N.ltb_spec a nv), (N.ltb_spec b nv), (N.ltb_spec c nv); cbn; try reflexivity; lia.
Qed.

(* the reader, as coded, is the format reader *)
Lemma read_mesh_char : forall h0 h1 h2 h3 rest,
  read_mesh (h0 :: h1 :: h2 :: h3 :: rest) =
  match spec_parse (h0 :: h1 :: h2 :: h3 :: rest) with
  | Some m => Ok m | None => FormatErr end.
Proof.
  intros. unfold read_mesh, spec_parse, spec_parse_with.
  set (nv := unle32 h0 h1 h2 h3).
  rewrite spec_verts_char.
  destruct (lenN rest <? 12 * nv); [reflexivity|].
  rewrite spec_tris_char.
  destruct (lenN (skipn (N.to_nat (12 * nv)) rest) mod 12 =? 0); [|reflexivity].
  cbn [negb]. rewrite refs_beyond_lt.
  destruct (forallb (tri_all (fun i => i <? nv)) (dec_triples (skipn (N.to_nat (12 * nv)) rest)));
    reflexivity.
Qed.

(* every byte string: the mesh the format describes, or the mesh-data error *)
Lemma reader_total_lemma : forall b, reader_conforms b.
Proof.
  intro b. unfold reader_conforms.
  destruct b as [|h0 [|h1 [|h2 [|h3 rest]]]]; try reflexivity.
  apply read_mesh_char.
Qed.

Lemma reader_never_crashes_lemma : forall b k, read_mesh b <> Crash k.
Proof.
  intros b k. rewrite (reader_total_lemma b). destruct (spec_parse b); discriminate.
Qed.

(* rejections the property names explicitly *)
Lemma short_header_rejected_lemma : forall b, lenN b < 4 -> read_mesh b = FormatErr.
Proof.
  intros b H. do 4 (destruct b as [|? b]; [reflexivity|]).
  repeat rewrite lenN_cons in H. lia.
Qed.

Definition eq_count_witness : list N :=
  [1;0;0;0; 0;0;0;0; 0;0;0;0; 0;0;0;0; 0;0;0;0; 1;0;0;0; 0;0;0;0].

Lemma index_bound_rejected_lemma : read_mesh eq_count_witness = FormatErr.
Proof. vm_compute. reflexivity. Qed.

(* ---------- writer then reader ---------- *)

Lemma spec_verts_0 : forall b, spec_verts b 0 = Some ([], b).
Proof. intro b. do 12 (destruct b as [|? b]; [reflexivity|]). reflexivity. Qed.

Lemma word_ok_lt : forall n, word_ok n = true -> n < two32.
Proof. intros n H. apply N.ltb_lt. exact H. Qed.

Lemma tri_all_split : forall p a b c, tri_all p (a, b, c) = true -> p a = true /\ p b = true /\ p c = true.
Proof. intros p a b c H. cbn in H. apply andb_prop in H as [H Hc]. apply andb_prop in H as [Ha Hb]. auto. Qed.

Lemma spec_verts_enc : forall v r, forallb (tri_all word_ok) v = true ->
  spec_verts (enc_tris v ++ r) (lenN v) = Some (v, r).
Proof.
  induction v as [|[[a b] c] v IH]; intros r Hw.
  - cbn [enc_tris flat_map app]. apply spec_verts_0.
  - cbn [forallb] in Hw. apply andb_prop in Hw as [Ht Hw].
    apply tri_all_split in Ht as (Ha & Hb & Hc).
    apply word_ok_lt in Ha, Hb, Hc.
    unfold enc_tris. cbn [flat_map]. unfold enc_tri at 1. unfold le32. cbn -[N.modulo N.div N.mul N.add N.sub N.eqb lenN unle32 flat_map].
    rewrite lenN_cons.
    assert (Hz : (1 + lenN v =? 0) = false) by (apply N.eqb_neq; lia). rewrite Hz.
    replace (1 + lenN v - 1) with (lenN v) by lia.
    fold (enc_tris v). rewrite (IH r Hw).
    rewrite !unle32_le32 by assumption. reflexivity.
Qed.

Lemma spec_tris_enc : forall ok t, forallb (tri_all word_ok) t = true ->
  forallb (tri_all ok) t = true -> spec_tris ok (enc_tris t) = Some t.
Proof.
  intros ok. induction t as [|[[a b] c] t IH]; intros Hw Hok; [reflexivity|].
  cbn [forallb] in Hw, Hok. apply andb_prop in Hw as [Ht Hw]. apply andb_prop in Hok as [Ho Hok].
  apply tri_all_split in Ht as (Ha & Hb & Hc). apply word_ok_lt in Ha, Hb, Hc.
  apply tri_all_split in Ho as (Hoa & Hob & Hoc).
  unfold enc_tris. cbn [flat_map]. unfold enc_tri at 1. unfold le32. cbn -[N.modulo N.div N.mul N.add N.sub N.eqb lenN unle32 flat_map].
  rewrite !unle32_le32 by assumption. rewrite Hoa, Hob, Hoc. cbn [andb].
  fold (enc_tris t). rewrite (IH Hw Hok). reflexivity.
Qed.

Lemma spec_parse_with_write : forall okf v t,
  lenN v < two32 -> forallb (tri_all word_ok) v = true -> forallb (tri_all word_ok) t = true ->
  forallb (tri_all (okf (lenN v))) t = true ->
  spec_parse_with okf (write_bytes v t) = Some (v, t).
Proof.
  intros okf v t Hn Hv Ht Hok. unfold write_bytes. unfold le32 at 1. cbn -[N.modulo N.div N.mul N.add N.sub N.eqb lenN unle32 enc_tris spec_verts spec_tris].
  rewrite (unle32_le32 _ Hn). rewrite (spec_verts_enc v (enc_tris t) Hv).
  rewrite (spec_tris_enc _ t Ht Hok). reflexivity.
Qed.

Lemma forallb_impl : forall {A} (p q : A -> bool) l,
  (forall x, p x = true -> q x = true) -> forallb p l = true -> forallb q l = true.
Proof.
  intros A p q l H. induction l as [|x l IH]; [reflexivity|]. cbn [forallb]. intro Hp.
  apply andb_prop in Hp as [Hx Hl]. rewrite (H x Hx), (IH Hl). reflexivity.
Qed.

Lemma tri_all_impl : forall (p q : N -> bool) t,
  (forall x, p x = true -> q x = true) -> tri_all p t = true -> tri_all q t = true.
Proof.
  intros p q [[a b] c] H Hp. apply tri_all_split in Hp as (Ha & Hb & Hc).
  cbn. rewrite (H a Ha), (H b Hb), (H c Hc). reflexivity.
Qed.

Lemma mesh_wf_split : forall v t, mesh_wf v t = true ->
  lenN v < two32 /\ forallb (tri_all word_ok) v = true /\
  forallb (tri_all (fun i => i <? lenN v)) t = true /\
  forallb (tri_all word_ok) t = true.
Proof.
  intros v t H. unfold mesh_wf in H. apply andb_prop in H as [H Ht]. apply andb_prop in H as [Hn Hv].
  apply N.ltb_lt in Hn. repeat split; try assumption.
  eapply forallb_impl; [|exact Ht]. intros x. apply tri_all_impl. intros i Hi.
  apply N.ltb_lt in Hi. apply N.ltb_lt. lia.
Qed.

Lemma mesh_roundtrip_lemma : forall v t, mesh_wf v t = true ->
  read_mesh (write_bytes v t) = Ok (v, t) /\ spec_parse (write_bytes v t) = Some (v, t).
Proof.
  intros v t H. destruct (mesh_wf_split v t H) as (Hn & Hv & Hlt & Htw).
  assert (Hs : spec_parse (write_bytes v t) = Some (v, t))
    by (unfold spec_parse; apply spec_parse_with_write; assumption).
  split; [|exact Hs]. rewrite (reader_total_lemma (write_bytes v t)), Hs. reflexivity.
Qed.

(* a mesh that references a vertex it does not have is refused on reading *)
Lemma bad_index_rejected_lemma : forall v t,
  lenN v < two32 -> forallb (tri_all word_ok) v = true -> forallb (tri_all word_ok) t = true ->
  forallb (tri_all (fun i => i <? lenN v)) t = false ->
  read_mesh (write_bytes v t) = FormatErr.
Proof.
  intros v t Hn Hv Ht Hbad.
  rewrite (reader_total_lemma (write_bytes v t)).
  destruct (spec_parse (write_bytes v t)) as [[v' t']|] eqn:E; [|reflexivity].
  exfalso.
  assert (Hlen : spec_parse_with (fun _ _ => true) (write_bytes v t) = Some (v, t)).
  { apply spec_parse_with_write; try assumption.
    clear. induction t as [|[[a b] c] t IH]; [reflexivity|]. cbn. exact IH. }
  (* the strict parse, when it succeeds, returns the same mesh as the lax one *)
  unfold spec_parse, spec_parse_with in E, Hlen.
  unfold write_bytes, le32 in E, Hlen.
  cbn -[N.modulo N.div N.mul N.add N.sub N.eqb lenN unle32 enc_tris spec_verts spec_tris] in E, Hlen.
  rewrite (unle32_le32 _ Hn) in E, Hlen.
  destruct (spec_verts (enc_tris v ++ enc_tris t) (lenN v)) as [[vs r]|]; [|discriminate].
  rewrite spec_tris_char in E, Hlen.
  destruct (lenN r mod 12 =? 0); [|discriminate].
  destruct (forallb (tri_all (fun _ => true)) (dec_triples r)); [|discriminate].
  injection Hlen as -> Hd.
  destruct (forallb (tri_all (fun i => i <? lenN v)) (dec_triples r)) eqn:F; [|discriminate].
  rewrite Hd in F. rewrite F in Hbad. discriminate.
Qed.

Lemma write_mesh_roundtrip_lemma : forall d v t b, write_mesh d v t = Ok b -> mesh_wf v t = true ->
  read_mesh b = Ok (v, t).
Proof.
  intros d v t b Hw Hwf. unfold write_mesh in Hw.
  destruct (two32 <=? lenN v); [discriminate|].
  destruct (negb (safe_to_u32 d)); [discriminate|].
  injection Hw as <-. apply mesh_roundtrip_lemma. exact Hwf.
Qed.

(* the writer fails only as stated *)
Lemma write_mesh_total_lemma : forall d v t,
  lenN v < two32 -> safe_to_u32 d = true -> write_mesh d v t = Ok (write_bytes v t).
Proof.
  intros d v t Hn Hd. unfold write_mesh.
  assert (H : (two32 <=? lenN v) = false) by (apply N.leb_gt; exact Hn).
  rewrite H, Hd. reflexivity.
Qed.

(* ---------- layout: the bytes are determined by the format ---------- *)

Lemma enc_tris_length : forall l, lenN (enc_tris l) = 12 * lenN l.
Proof.
  induction l as [|[[a b] c] l IH]; [reflexivity|].
  unfold enc_tris. cbn [flat_map]. unfold enc_tri at 1. unfold le32. cbn -[N.modulo N.div N.mul N.add lenN flat_map]. fold (enc_tris l).
  repeat rewrite lenN_cons. rewrite IH. lia.
Qed.

Lemma write_bytes_length : forall v t, lenN (write_bytes v t) = 4 + 12 * lenN v + 12 * lenN t.
Proof.
  intros. unfold write_bytes, le32. cbn -[N.modulo N.div N.mul N.add lenN enc_tris]. repeat rewrite lenN_cons.
  rewrite lenN_app, !enc_tris_length. lia.
Qed.

Definition bytes_ok (b : list N) : bool := forallb (fun x => x <? 256) b.

Ltac split_bytes H :=
  cbn [bytes_ok forallb] in H;
  repeat (let Hx := fresh "Hb" in apply andb_prop in H as [Hx H]; apply N.ltb_lt in Hx).

Lemma spec_verts_inv : forall n b vs r, bytes_ok b = true -> spec_verts b n = Some (vs, r) ->
  b = enc_tris vs ++ r /\ lenN vs = n /\ bytes_ok r = true.
Proof.
  induction n as [|k IH] using N.peano_ind; intros b vs r Hb H.
  - rewrite spec_verts_0 in H. injection H as <- <-. auto.
  - do 12 (destruct b as [|? b]; [cbn [spec_verts] in H; rewrite succ_eqb_0 in H; discriminate|]).
    cbn [spec_verts] in H. rewrite succ_eqb_0 in H.
    replace (N.succ k - 1) with k in H by lia.
    destruct (spec_verts b k) as [[l r']|] eqn:E; [|discriminate].
    injection H as <- <-.
    unfold bytes_ok in Hb. split_bytes Hb.
    destruct (IH b l r' Hb E) as (-> & Hl & Hr).
    split; [|split; [rewrite lenN_cons; lia | exact Hr]].
    unfold enc_tris. cbn [flat_map enc_tri]. fold (enc_tris l).
    rewrite !le32_unle32 by assumption. reflexivity.
Qed.

Lemma spec_tris_inv_aux : forall ok n b ts, (length b <= n)%nat -> bytes_ok b = true ->
  spec_tris ok b = Some ts -> b = enc_tris ts.
Proof.
  intros ok n. induction n as [|n IH]; intros b ts Hlen Hb H.
  - destruct b; [injection H as <-; reflexivity | cbn in Hlen; lia].
  - destruct b as [|x0 b]; [injection H as <-; reflexivity|].
    do 11 (destruct b as [|? b]; [discriminate|]).
    cbn [spec_tris] in H.
    match type of H with (if ?c then _ else _) = _ => destruct c; [|discriminate] end.
    destruct (spec_tris ok b) as [l|] eqn:E; [|discriminate].
    injection H as <-.
    unfold bytes_ok in Hb. split_bytes Hb.
    rewrite (IH b l) by (try assumption; cbn [length] in Hlen; lia).
    unfold enc_tris. cbn [flat_map enc_tri]. fold (enc_tris l).
    rewrite !le32_unle32 by assumption. reflexivity.
Qed.

Lemma layout_unique_lemma : forall okf b v t, bytes_ok b = true ->
  spec_parse_with okf b = Some (v, t) -> b = write_bytes v t.
Proof.
  intros okf b v t Hb H. unfold spec_parse_with in H.
  destruct b as [|h0 [|h1 [|h2 [|h3 rest]]]]; try discriminate.
  destruct (spec_verts rest (unle32 h0 h1 h2 h3)) as [[vs r]|] eqn:Ev; [|discriminate].
  destruct (spec_tris (okf (unle32 h0 h1 h2 h3)) r) as [ts|] eqn:Et; [|discriminate].
  injection H as <- <-.
  unfold bytes_ok in Hb. cbn [forallb] in Hb.
  apply andb_prop in Hb as [H0 Hb]. apply andb_prop in Hb as [H1 Hb].
  apply andb_prop in Hb as [H2 Hb]. apply andb_prop in Hb as [H3 Hb].
  apply N.ltb_lt in H0, H1, H2, H3.
  destruct (spec_verts_inv _ _ _ _ Hb Ev) as (-> & Hl & Hr).
  rewrite (spec_tris_inv_aux _ (length r) r ts (le_n _) Hr Et).
  unfold write_bytes. rewrite Hl. rewrite le32_unle32 by assumption. reflexivity.
Qed.

(* ================= affine transform, over any commutative ring ================= *)

Section GenericRing.
  Variable R : Type.
  Variables (rO rI : R) (radd rmul rsub : R -> R -> R) (ropp : R -> R).
  Variable Rth : ring_theory rO rI radd rmul rsub ropp (@eq R).
  Add Ring MeRing : Rth.

  Local Infix "+" := radd.
  Local Infix "*" := rmul.
  Local Infix "-" := rsub.
  Local Notation "- x" := (ropp x).
  Local Notation det3 := (det3 R radd rmul rsub).
  Local Notation detM := (detM R radd rmul rsub).
  Local Notation vol := (vol R radd rmul rsub).
  Local Notation lin := (lin R radd rmul).
  Local Notation app := (app R radd rmul).
  Local Notation vscale := (vscale R rmul).
  Local Notation vsub := (vsub R rsub).
  Local Notation vadd := (vadd R radd).
  Local Notation dot := (dot R radd rmul).

  Lemma det3_lin : forall (m : affine R) a b c,
    det3 (lin m a) (lin m b) (lin m c) = detM m * det3 a b c.
  Proof.
    intros [[[r11 r12] r13] [[r21 r22] r23] [[r31 r32] r33] t] [[a1 a2] a3] [[b1 b2] b3] [[c1 c2] c3].
    unfold MeAffine.det3, MeAffine.detM, MeAffine.lin, MeAffine.dot; cbn. ring.
  Qed.

  Lemma vol_app : forall (m : affine R) p a b c,
    vol (app m p) (app m a) (app m b) (app m c) = detM m * vol p a b c.
  Proof.
    intros [[[r11 r12] r13] [[r21 r22] r23] [[r31 r32] r33] [[t1 t2] t3]]
           [[p1 p2] p3] [[a1 a2] a3] [[b1 b2] b3] [[c1 c2] c3].
    unfold MeAffine.vol, MeAffine.det3, MeAffine.detM, MeAffine.app, MeAffine.lin, MeAffine.dot,
           MeAffine.vadd, MeAffine.vsub; cbn. ring.
  Qed.

  Lemma det3_flip : forall a b c, det3 c b a = - det3 a b c.
  Proof. intros [[a1 a2] a3] [[b1 b2] b3] [[c1 c2] c3]. unfold MeAffine.det3. ring. Qed.

  Lemma vol_flip : forall p a b c, vol p c b a = - vol p a b c.
  Proof. intros. unfold MeAffine.vol. apply det3_flip. Qed.

  Lemma det3_scale : forall k a b c,
    det3 (vscale k a) (vscale k b) (vscale k c) = k * k * k * det3 a b c.
  Proof. intros k [[a1 a2] a3] [[b1 b2] b3] [[c1 c2] c3]. unfold MeAffine.det3, MeAffine.vscale. ring. Qed.

  Lemma vol_scale : forall k p a b c,
    vol (vscale k p) (vscale k a) (vscale k b) (vscale k c) = k * k * k * vol p a b c.
  Proof.
    intros k [[p1 p2] p3] [[a1 a2] a3] [[b1 b2] b3] [[c1 c2] c3].
    unfold MeAffine.vol, MeAffine.det3, MeAffine.vscale, MeAffine.vsub. ring.
  Qed.
End GenericRing.

(* ---------- the coded winding rule, over Z ---------- *)
Open Scope Z_scope.

Definition Zring_th := Zth.

Lemma zvol_app : forall m p a b c,
  zvol (zapp m p) (zapp m a) (zapp m b) (zapp m c) = zdetM m * zvol p a b c.
Proof. intros. exact (vol_app Z 0 1 Z.add Z.mul Z.sub Z.opp Zth m p a b c). Qed.

Lemma zvol_flip : forall p a b c, zvol p c b a = - zvol p a b c.
Proof. intros. exact (vol_flip Z 0 1 Z.add Z.mul Z.sub Z.opp Zth p a b c). Qed.

Lemma zvol_scale : forall k p a b c,
  zvol (zscale k p) (zscale k a) (zscale k b) (zscale k c) = k * k * k * zvol p a b c.
Proof. intros. exact (vol_scale Z 0 1 Z.add Z.mul Z.sub Z.opp Zth k p a b c). Qed.

(* one triangle through affine_transform_mesh *)
Definition coded_triangle (m : zaffine) (a b c : zvec) : zvec * zvec * zvec :=
  if zdetM m <? 0 then (zapp m c, zapp m b, zapp m a) else (zapp m a, zapp m b, zapp m c).

Lemma winding_preserved_lemma : forall m p a b c, zdetM m <> 0 ->
  let '(a', b', c') := coded_triangle m a b c in
  Z.sgn (zvol (zapp m p) a' b' c') = Z.sgn (zvol p a b c).
Proof.
  intros m p a b c Hd. unfold coded_triangle.
  destruct (Z.ltb_spec (zdetM m) 0) as [Hn|Hp].
  - rewrite zvol_flip, zvol_app, Z.sgn_opp, Z.sgn_mul.
    rewrite (Z.sgn_neg (zdetM m)) by assumption. lia.
  - rewrite zvol_app, Z.sgn_mul. rewrite (Z.sgn_pos (zdetM m)) by lia. lia.
Qed.

(* without the flip a mirroring transform turns every triangle inside out *)
Lemma mirror_reverses_lemma : forall m p a b c, zdetM m < 0 ->
  Z.sgn (zvol (zapp m p) (zapp m a) (zapp m b) (zapp m c)) = - Z.sgn (zvol p a b c).
Proof.
  intros m p a b c Hn. rewrite zvol_app, Z.sgn_mul, (Z.sgn_neg (zdetM m)) by assumption. lia.
Qed.

Lemma mm_to_nm_orientation_lemma : forall p a b c,
  Z.sgn (zvol (zscale 1000000 p) (zscale 1000000 a) (zscale 1000000 b) (zscale 1000000 c))
  = Z.sgn (zvol p a b c).
Proof.
  intros. rewrite zvol_scale, Z.sgn_mul.
  replace (Z.sgn (1000000 * 1000000 * 1000000)) with 1 by reflexivity. lia.
Qed.

Lemma corners_map : forall (f : zvec -> zvec) vs t a b c,
  corners vs t = Some (a, b, c) -> corners (map f vs) t = Some (f a, f b, f c).
Proof.
  intros f vs [[i j] k] a b c H. unfold corners in *.
  rewrite !nth_error_map.
  destruct (nth_error vs (Z.to_nat i)); [|discriminate].
  destruct (nth_error vs (Z.to_nat j)); [|discriminate].
  destruct (nth_error vs (Z.to_nat k)); [|discriminate].
  injection H as <- <- <-. reflexivity.
Qed.

Lemma corners_flip : forall vs t a b c,
  corners vs t = Some (a, b, c) -> corners vs (flip_tri t) = Some (c, b, a).
Proof.
  intros vs [[i j] k] a b c H. unfold corners, flip_tri in *.
  destruct (nth_error vs (Z.to_nat i)); [|discriminate].
  destruct (nth_error vs (Z.to_nat j)); [|discriminate].
  destruct (nth_error vs (Z.to_nat k)); [|discriminate].
  injection H as <- <- <-. reflexivity.
Qed.

(* mesh level: every triangle of the output is the image of the triangle at
   the same position, and it faces the same way relative to any reference point *)
Lemma affine_mesh_orientation_lemma : forall rows last m vs ts vs' ts',
  affine_transform_mesh rows last m vs ts = Ok (vs', ts') -> zdetM m <> 0 ->
  vs' = map (zapp m) vs /\ length ts' = length ts /\
  forall n t a b c p, nth_error ts n = Some t -> corners vs t = Some (a, b, c) ->
    exists t' a' b' c', nth_error ts' n = Some t' /\ corners vs' t' = Some (a', b', c') /\
      (a', b', c') = coded_triangle m a b c /\
      Z.sgn (zvol (zapp m p) a' b' c') = Z.sgn (zvol p a b c).
Proof.
  intros rows last m vs ts vs' ts' H Hd. unfold affine_transform_mesh in H.
  match type of H with (if ?c then _ else _) = _ => destruct c; [discriminate|] end.
  injection H as <- <-. split; [reflexivity|]. split.
  - destruct (zdetM m <? 0); [apply map_length | reflexivity].
  - intros n t a b c p Hn Hc.
    pose proof (winding_preserved_lemma m p a b c Hd) as Hw.
    unfold coded_triangle in *.
    destruct (zdetM m <? 0) eqn:E.
    + exists (flip_tri t), (zapp m c), (zapp m b), (zapp m a).
      split; [rewrite nth_error_map, Hn; reflexivity|].
      split; [apply corners_map, corners_flip; exact Hc|]. split; [reflexivity | exact Hw].
    + exists t, (zapp m a), (zapp m b), (zapp m c).
      split; [exact Hn|]. split; [apply corners_map; exact Hc|]. split; [reflexivity | exact Hw].
Qed.

Lemma affine_rejects_bad_last_row_lemma : forall last m vs ts,
  last <> [0; 0; 0; 1] -> affine_transform_mesh 4 last m vs ts = Crash AssertionError.
Proof.
  intros last m vs ts H. unfold affine_transform_mesh. cbn [Z.eqb andb].
  destruct last as [|a [|b [|c [|d [|e l]]]]]; try reflexivity.
  destruct (Z.eqb_spec a 0), (Z.eqb_spec b 0), (Z.eqb_spec c 0), (Z.eqb_spec d 1); subst;
    cbn; try reflexivity. contradiction.
Qed.
Close Scope Z_scope.

(* ================= fragment links ================= *)

Lemma below_128_in : forall c, c < 128 -> In c (nseq 0 128).
Proof.
  intros c H.
  assert (G : forall len start, start <= c < start + N.of_nat len -> In c (nseq start len)).
  { induction len as [|len IH]; intros start Hr; [lia|].
    cbn [nseq]. destruct (N.eq_dec start c) as [->|Hne]; [left; reflexivity|].
    right. apply IH. lia. }
  apply G. cbn. lia.
Qed.

Lemma scan_char : forall c, c < 128 -> forall rest acc out,
  links_scan (json_char c ++ rest) (LmStr acc) out = links_scan rest (LmStr (c :: acc)) out.
Proof.
  intros c Hc.
  assert (F : Forall (fun c => forall rest acc out,
              links_scan (json_char c ++ rest) (LmStr acc) out = links_scan rest (LmStr (c :: acc)) out)
              (nseq 0 128)).
  { repeat (constructor; [intros; reflexivity|]). constructor. }
  rewrite Forall_forall in F. apply F. apply below_128_in. exact Hc.
Qed.

Lemma scan_chars : forall s rest acc out, ascii_cell s = true ->
  links_scan (flat_map json_char s ++ rest) (LmStr acc) out = links_scan rest (LmStr (rev s ++ acc)) out.
Proof.
  induction s as [|c s IH]; intros rest acc out Ha; [reflexivity|].
  unfold ascii_cell in Ha. cbn [forallb] in Ha. apply andb_prop in Ha as [Hc Hs].
  apply N.ltb_lt in Hc.
  cbn [flat_map rev]. rewrite <- app_assoc. rewrite (scan_char c Hc).
  rewrite (IH rest (c :: acc) out Hs). rewrite <- app_assoc. reflexivity.
Qed.

Lemma scan_string : forall s rest out m, ascii_cell s = true -> m = LmStart \/ m = LmAfterComma ->
  links_scan (json_string s ++ rest) m out = links_scan rest LmAfterStr (s :: out).
Proof.
  intros s rest out m Ha Hm. unfold json_string.
  change ((34 :: flat_map json_char s ++ [34]) ++ rest)
    with (34 :: ((flat_map json_char s ++ [34]) ++ rest)).
  rewrite <- app_assoc.
  assert (E : links_scan (34 :: flat_map json_char s ++ [34] ++ rest) m out =
              links_scan (flat_map json_char s ++ [34] ++ rest) (LmStr []) out)
    by (destruct Hm as [-> | ->]; reflexivity).
  rewrite E, (scan_chars s _ [] out Ha). rewrite app_nil_r.
  cbn [List.app links_scan N.eqb Pos.eqb]. rewrite rev_involutive. reflexivity.
Qed.

Lemma scan_list : forall frags m out, frags <> [] -> m = LmStart \/ m = LmAfterComma ->
  forallb ascii_cell frags = true ->
  links_scan (json_strings frags ++ [93; 125]) m out = Some (rev out ++ frags).
Proof.
  induction frags as [|s frags IH]; intros m out Hne Hm Ha; [contradiction|].
  cbn [forallb] in Ha. apply andb_prop in Ha as [Hs Hr].
  destruct frags as [|s' r].
  - cbn [json_strings]. rewrite (scan_string s _ out m Hs Hm).
    reflexivity.
  - change (json_strings (s :: s' :: r)) with (json_string s ++ 44 :: json_strings (s' :: r)).
    rewrite <- app_assoc. rewrite (scan_string s _ out m Hs Hm).
    change ((44 :: json_strings (s' :: r)) ++ [93; 125]) with (44 :: (json_strings (s' :: r) ++ [93; 125])).
    assert (E : forall l o, links_scan (44 :: l) LmAfterStr o = links_scan l LmAfterComma o) by reflexivity.
    rewrite E. rewrite (IH LmAfterComma (s :: out)); [|discriminate|right; reflexivity|exact Hr].
    cbn [rev]. rewrite <- app_assoc. reflexivity.
Qed.

Lemma strip_prefix_app : forall p l, strip_prefix p (p ++ l) = Some l.
Proof.
  induction p as [|a p IH]; intro l; [reflexivity|].
  cbn [List.app strip_prefix]. rewrite N.eqb_refl. apply IH.
Qed.

Lemma links_exact_lemma : forall frags, forallb ascii_cell frags = true ->
  spec_read_links (links_json frags) = Some frags.
Proof.
  intros frags Ha. unfold spec_read_links, links_json. rewrite strip_prefix_app.
  destruct frags as [|s r]; [reflexivity|].
  rewrite (scan_list (s :: r) LmStart []); [reflexivity|discriminate|left; reflexivity|exact Ha].
Qed.

(* what one CSV row stands for *)
Definition row_file (mesh_dir : list N) (no_colon : bool) (row : list (list N)) : option file :=
  match row with
  | c :: frags => match py_int c with
                  | Some z => Some (link_name mesh_dir no_colon z, links_json frags)
                  | None => None end
  | [] => None
  end.

Lemma make_links_files_lemma : forall mesh_dir no_colon existing rows done files,
  make_links mesh_dir no_colon existing rows done = (files, Ok tt) ->
  map Some files = map Some (rev done) ++ map (row_file mesh_dir no_colon) rows.
Proof.
  intros md nc ex rows. induction rows as [|row rows IH]; intros done files H.
  - cbn in H. injection H as <-. cbn. rewrite app_nil_r. reflexivity.
  - cbn [make_links] in H. destruct row as [|c frags]; [discriminate|].
    cbn [map row_file].
    destruct (py_int c) as [z|]; [|discriminate].
    destruct (existsb has_dotdot frags || has_dotdot md); [discriminate|].
    destruct (existsb (bytes_eq (link_name md nc z)) (ex ++ map fst done)); [discriminate|].
    rewrite (IH _ _ H). cbn [rev]. rewrite map_app, <- app_assoc. reflexivity.
Qed.

(* the stored names never collide when the run succeeds *)
Lemma make_links_fresh_lemma : forall mesh_dir no_colon existing rows done files,
  make_links mesh_dir no_colon existing rows done = (files, Ok tt) ->
  NoDup (map fst done) -> (forall n, In n (map fst done) -> ~ In n existing) ->
  (forall a b, bytes_eq a b = true <-> a = b) ->
  NoDup (map fst files) /\ forall n, In n (map fst files) -> ~ In n existing.
Proof.
  intros md nc ex rows. induction rows as [|row rows IH]; intros done files H Hnd Hex Heq.
  - cbn in H. injection H as <-. rewrite map_rev. split.
    + apply NoDup_rev. exact Hnd.
    + intros n Hn. apply Hex. apply in_rev. exact Hn.
  - cbn [make_links] in H. destruct row as [|c frags]; [discriminate|].
    destruct (py_int c) as [z|]; [|discriminate].
    destruct (existsb has_dotdot frags || has_dotdot md); [discriminate|].
    destruct (existsb (bytes_eq (link_name md nc z)) (ex ++ map fst done)) eqn:E; [discriminate|].
    assert (Hnot : ~ In (link_name md nc z) (ex ++ map fst done)).
    { intro Hin. assert (T : existsb (bytes_eq (link_name md nc z)) (ex ++ map fst done) = true).
      { apply existsb_exists. exists (link_name md nc z). split; [exact Hin|]. apply Heq. reflexivity. }
      rewrite T in E. discriminate. }
    apply (IH _ _ H).
    + cbn [map fst]. constructor; [|exact Hnd]. intro Hin. apply Hnot. apply in_or_app. right. exact Hin.
    + intros n Hn. cbn [map fst] in Hn. destruct Hn as [<-|Hn].
      * intro Hin. apply Hnot. apply in_or_app. left. exact Hin.
      * apply Hex. exact Hn.
    + exact Heq.
Qed.

Lemma bytes_eq_iff : forall a b, bytes_eq a b = true <-> a = b.
Proof.
  induction a as [|x a IH]; intros [|y b]; split; intro H; try reflexivity; try discriminate.
  - unfold bytes_eq in H. cbn in H. apply andb_prop in H as [Hl Hf].
    apply andb_prop in Hf as [Hx Hf]. apply N.eqb_eq in Hx. subst y. f_equal.
    apply IH. unfold bytes_eq. rewrite Hf. cbn in Hl. rewrite Hl. reflexivity.
  - injection H as -> ->. unfold bytes_eq. cbn. rewrite N.eqb_refl. cbn.
    destruct (IH b) as [_ G]. specialize (G eq_refl). unfold bytes_eq in G.
    apply andb_prop in G as [G1 G2]. rewrite G1, G2. reflexivity.
Qed.

(* ================= VTK export: witnesses ================= *)

Definition vtk_demo_vs : list (N * N * N) := [(0, 1065353216, 0); (1073741824, 0, 0); (0, 0, 3212836864)].
Definition vtk_demo_ts : list (Z * Z * Z) := [(0, 1, 2)%Z; (2, 1, 0)%Z].
Definition vtk_demo_attr (name : list N) : vattr :=
  {| at_name := name; at_len := 3; at_ndim := 2; at_k := 2;
     at_rows := [[0; 1065353216]; [1; 2]; [3; 4]] |}.
Definition vtk_version : list N := [49; 46; 51].   (* "1.3" *)

Lemma vtk_demo_parses :
  vtk_guard [116] vtk_version vtk_demo_vs vtk_demo_ts [vtk_demo_attr [99; 117; 114; 118]] = true /\
  exists ls, vtk_write [116] vtk_version vtk_demo_vs vtk_demo_ts [vtk_demo_attr [99; 117; 114; 118]] = Ok ls /\
             vtk_grammar ls = Some (expected_mesh vtk_demo_vs vtk_demo_ts [vtk_demo_attr [99; 117; 114; 118]]).
Proof. split; [vm_compute; reflexivity|]. eexists. split; vm_compute; reflexivity. Qed.

(* attribute names that are empty or contain white space anywhere are refused
   by the writer *)
Lemma vtk_bad_name_rejected_lemma : forall title version vs ts a rest,
  existsb (N.eqb 10) title = false -> name_ok (at_name a) = false ->
  vtk_write title version vs ts (a :: rest) = Crash AssertionError.
Proof.
  intros title version vs ts a rest Ht Hn. unfold vtk_write. rewrite Ht.
  cbn [attr_lines]. change (name_assert_passes (at_name a)) with (name_ok (at_name a)).
  rewrite Hn. reflexivity.
Qed.

Lemma vtk_name_whitespace_example :
  vtk_write [] vtk_version vtk_demo_vs vtk_demo_ts [vtk_demo_attr [97; 32; 98]] = Crash AssertionError /\
  vtk_write [] vtk_version vtk_demo_vs vtk_demo_ts [vtk_demo_attr []] = Crash AssertionError.
Proof. split; reflexivity. Qed.

(* titles of any length are written (truncated to 255 characters) and the
   grammar, which does not model Neuroglancer's header window, accepts them *)
Lemma vtk_long_title_example :
  vtk_guard (repeat 120 400) vtk_version vtk_demo_vs vtk_demo_ts [] = true.
Proof. vm_compute. reflexivity. Qed.

(* a title that contains a newline is refused by the writer *)
Lemma vtk_newline_title_lemma : forall version vs ts attrs,
  vtk_write [97; 10; 98] version vs ts attrs = Crash AssertionError.
Proof. reflexivity. Qed.

(* ================= VTK export is accepted by the grammar ================= *)

Definition mkst m nv pts tris attrs : pstate :=
  {| ps_mode := m; ps_nv := nv; ps_pts := pts; ps_tris := tris; ps_attrs := attrs |}.

Lemma as_count_N : forall n, as_count (GI (Z.of_N n)) = Some n.
Proof.
  intro n. unfold as_count. destruct (Z.leb_spec 0 (Z.of_N n)); [|lia]. rewrite N2Z.id. reflexivity.
Qed.

Lemma step_points_header : forall m nv pts tris attrs n,
  ps_mode (settle (mkst m nv pts tris attrs)) = MTop ->
  step (mkst m nv pts tris attrs) (LPoints n) =
  Some (mkst (MPoints n) (Some n) [] (ps_tris (settle (mkst m nv pts tris attrs)))
             (ps_attrs (settle (mkst m nv pts tris attrs)))).
Proof.
  intros m nv pts tris attrs n H. unfold step. rewrite H.
  cbn [toks]. change (is_word w_points (GW w_points)) with true. cbv iota.
  rewrite as_count_N. reflexivity.
Qed.

Lemma step_vert_row : forall left nv pts tris attrs v, left <> 0 ->
  step (mkst (MPoints left) nv pts tris attrs) (vert_row v) =
  Some (mkst (MPoints (left - 1)) nv ((let '(a, b, c) := v in [a; b; c]) :: pts) tris attrs).
Proof.
  intros left nv pts tris attrs [[a b] c] H. destruct left as [|p]; [contradiction|]. reflexivity.
Qed.

Lemma run_vert_rows : forall vs k nv pts tris attrs rest,
  run_lines (mkst (MPoints (lenN vs + k)) nv pts tris attrs) (map vert_row vs ++ rest) =
  run_lines (mkst (MPoints k) nv (rev (map (fun '(a, b, c) => [a; b; c]) vs) ++ pts) tris attrs) rest.
Proof.
  induction vs as [|v vs IH]; intros k nv pts tris attrs rest.
  - reflexivity.
  - cbn [map List.app run_lines]. rewrite step_vert_row by (unfold lenN; cbn [length]; lia).
    replace (lenN (v :: vs) + k - 1) with (lenN vs + k) by (unfold lenN; cbn [length]; lia).
    rewrite IH. cbn [rev]. rewrite <- app_assoc. destruct v as [[a b] c]. reflexivity.
Qed.

Lemma step_polys_header : forall nv pts tris attrs m,
  step (mkst (MPoints 0) nv pts tris attrs) (LPolygons m (4 * m)) =
  Some (mkst (MPolys m) nv pts (Some []) attrs).
Proof.
  intros. unfold step. cbn [settle mkst ps_mode set_mode ps_nv ps_pts ps_tris ps_attrs toks].
  change (is_word w_points (GW w_polygons)) with false.
  change (is_word w_polygons (GW w_polygons)) with true. cbv iota.
  rewrite !as_count_N, N.eqb_refl. reflexivity.
Qed.

Definition tri_nonneg (t : Z * Z * Z) : bool := let '(a, b, c) := t in ((0 <=? a) && (0 <=? b) && (0 <=? c))%Z.
Definition tri_toN (t : Z * Z * Z) : N * N * N := let '(a, b, c) := t in (Z.to_N a, Z.to_N b, Z.to_N c).

Lemma step_tri_row : forall left nv pts acc attrs t, left <> 0 -> tri_nonneg t = true ->
  step (mkst (MPolys left) nv pts (Some acc) attrs) (tri_row t) =
  Some (mkst (MPolys (left - 1)) nv pts (Some (tri_toN t :: acc)) attrs).
Proof.
  intros left nv pts acc attrs [[a b] c] H Ht. destruct left as [|p]; [contradiction|].
  unfold tri_nonneg in Ht. apply andb_prop in Ht as [Ht Hc]. apply andb_prop in Ht as [Ha Hb].
  unfold step. cbn [settle mkst ps_mode tri_row toks map as_count ps_tris ps_nv ps_pts ps_attrs].
  rewrite Ha, Hb, Hc. reflexivity.
Qed.

Lemma run_tri_rows : forall ts k nv pts acc attrs rest, forallb tri_nonneg ts = true ->
  run_lines (mkst (MPolys (lenN ts + k)) nv pts (Some acc) attrs) (map tri_row ts ++ rest) =
  run_lines (mkst (MPolys k) nv pts (Some (rev (map tri_toN ts) ++ acc)) attrs) rest.
Proof.
  induction ts as [|t ts IH]; intros k nv pts acc attrs rest H.
  - reflexivity.
  - cbn [forallb] in H. apply andb_prop in H as [Ht Hr].
    cbn [map List.app run_lines]. rewrite step_tri_row by (try assumption; unfold lenN; cbn [length]; lia).
    replace (lenN (t :: ts) + k - 1) with (lenN ts + k) by (unfold lenN; cbn [length]; lia).
    rewrite IH by assumption. cbn [rev]. rewrite <- app_assoc. reflexivity.
Qed.

Lemma step_point_data : forall nv pts tris attrs,
  step (mkst (MPolys 0) (Some nv) pts tris attrs) (LPointData nv) =
  Some (mkst MPointData (Some nv) pts tris attrs).
Proof.
  intros. unfold step. cbn [settle mkst ps_mode set_mode ps_nv ps_pts ps_tris ps_attrs toks].
  change (is_word w_point_data (GW w_point_data)) with true. cbv iota.
  rewrite as_count_N, N.eqb_refl. reflexivity.
Qed.

(* names without white space are one token *)
Lemma tokenize_aux_clean : forall l cur, existsb is_blank_char l = false ->
  tokenize_aux l cur = match rev cur ++ l with [] => [] | t => [t] end.
Proof.
  induction l as [|c l IH]; intros cur H.
  - cbn. rewrite app_nil_r. destruct cur as [|x cur]; [reflexivity|].
    destruct (rev (x :: cur)) eqn:E; [|reflexivity].
    apply (f_equal (@length N)) in E. rewrite rev_length in E. discriminate.
  - cbn [existsb] in H. apply orb_false_iff in H as [Hc Hl].
    cbn [tokenize_aux]. rewrite Hc. rewrite (IH (c :: cur) Hl). cbn [rev]. rewrite <- app_assoc. reflexivity.
Qed.

Lemma blank_is_space : forall c, is_blank_char c = true -> py_space c = true.
Proof.
  intros c H. unfold is_blank_char in H. unfold py_space.
  apply orb_prop in H as [H|H]; apply N.eqb_eq in H; subst; reflexivity.
Qed.

Lemma tokenize_name : forall name, name_ok name = true -> tokenize name = [name].
Proof.
  intros name H. unfold name_ok in H. destruct name as [|c name]; [discriminate|].
  apply negb_true_iff in H. unfold tokenize. rewrite tokenize_aux_clean.
  - reflexivity.
  - clear -H. induction (c :: name) as [|x l IH]; [reflexivity|].
    cbn [existsb] in *. apply orb_false_iff in H as [Hx Hl]. rewrite (IH Hl), orb_false_r.
    destruct (is_blank_char x) eqn:E; [|reflexivity]. apply blank_is_space in E. congruence.
Qed.

Lemma step_scalars : forall s nv pts tris attrs name k, 1 <= k -> name_ok name = true ->
  settle s = mkst MPointData nv pts tris attrs ->
  step s (LScalars name (if k =? 1 then None else Some k)) = Some (mkst (MLookup name k) nv pts tris attrs).
Proof.
  intros s nv pts tris attrs name k Hk Hn Hs. unfold step. rewrite Hs.
  cbn [mkst ps_mode toks]. rewrite (tokenize_name name Hn). cbn [map List.app].
  destruct (N.eqb_spec k 1) as [->|Hne].
  - cbn [List.app]. change (is_word w_scalars (GW w_scalars)) with true. reflexivity.
  - cbn [List.app]. change (is_word w_scalars (GW w_scalars)) with true. cbv iota.
    rewrite as_count_N. destruct (N.eqb_spec k 0); [lia|]. reflexivity.
Qed.

Lemma step_lookup : forall name k nv pts tris attrs,
  step (mkst (MLookup name k) (Some nv) pts tris attrs) LLookup =
  Some (mkst (MScalars name k nv []) (Some nv) pts tris attrs).
Proof. intros. reflexivity. Qed.

Lemma take_numbers_all : forall r, take_numbers (length r) (map GF r) = Some r.
Proof. induction r as [|x r IH]; [reflexivity|]. cbn. rewrite IH. reflexivity. Qed.

Lemma step_scalar_row : forall name k left acc nv pts tris attrs r, left <> 0 -> lenN r = k ->
  step (mkst (MScalars name k left acc) nv pts tris attrs) (LFloats r) =
  Some (mkst (MScalars name k (left - 1) (r :: acc)) nv pts tris attrs).
Proof.
  intros name k left acc nv pts tris attrs r H Hk. destruct left as [|p]; [contradiction|].
  unfold step. cbn [settle mkst ps_mode toks]. subst k. unfold lenN. rewrite Nat2N.id, take_numbers_all.
  reflexivity.
Qed.

Lemma run_scalar_rows : forall rows name k j acc nv pts tris attrs rest,
  forallb (fun r => lenN r =? k) rows = true ->
  run_lines (mkst (MScalars name k (lenN rows + j) acc) nv pts tris attrs) (map LFloats rows ++ rest) =
  run_lines (mkst (MScalars name k j (rev rows ++ acc)) nv pts tris attrs) rest.
Proof.
  induction rows as [|r rows IH]; intros name k j acc nv pts tris attrs rest H.
  - reflexivity.
  - cbn [forallb] in H. apply andb_prop in H as [Hr Hrs]. apply N.eqb_eq in Hr.
    cbn [map List.app run_lines]. rewrite step_scalar_row by (try assumption; unfold lenN; cbn [length]; lia).
    replace (lenN (r :: rows) + j - 1) with (lenN rows + j) by (unfold lenN; cbn [length]; lia).
    rewrite IH by assumption. cbn [rev]. rewrite <- app_assoc. reflexivity.
Qed.

Definition attr_block (a : vattr) : list vline :=
  LScalars (at_name a) (if at_k a =? 1 then None else Some (at_k a)) :: LLookup :: map LFloats (at_rows a).
Definition to_pattr (a : vattr) : pattr := {| pa_name := at_name a; pa_k := at_k a; pa_rows := at_rows a |}.

Lemma attr_lines_ok : forall nv attrs, forallb (attr_ok nv) attrs = true ->
  attr_lines nv attrs = Ok (flat_map attr_block attrs).
Proof.
  intros nv. induction attrs as [|a attrs IH]; intro H; [reflexivity|].
  cbn [forallb] in H. apply andb_prop in H as [Ha Hr].
  unfold attr_ok in Ha. repeat (apply andb_prop in Ha as [Ha ?]).
  cbn [attr_lines].
  assert (Hna : name_assert_passes (at_name a) = true) by exact Ha.
  rewrite Hna. cbn [negb].
  match goal with Hx : (at_len a =? nv) = true |- _ => rewrite Hx end.
  match goal with Hx : (_ || _) = true |- _ => rewrite Hx end. cbn [negb].
  rewrite (IH Hr). reflexivity.
Qed.

Lemma run_attr_blocks : forall nv attrs s pts tris pattrs rest,
  forallb (attr_ok nv) attrs = true ->
  settle s = mkst MPointData (Some nv) pts tris pattrs ->
  exists s', run_lines s (flat_map attr_block attrs ++ rest) = run_lines s' rest /\
             settle s' = mkst MPointData (Some nv) pts tris (rev (map to_pattr attrs) ++ pattrs).
Proof.
  intros nv. induction attrs as [|a attrs IH]; intros s pts tris pattrs rest H Hs.
  - exists s. split; [reflexivity | exact Hs].
  - cbn [forallb] in H. apply andb_prop in H as [Ha Hr].
    pose proof Ha as Ha'. unfold attr_ok in Ha'. repeat (apply andb_prop in Ha' as [Ha' ?]).
    match goal with Hx : (1 <=? at_k a) = true |- _ => apply N.leb_le in Hx; rename Hx into Hk end.
    match goal with Hx : (lenN (at_rows a) =? nv) = true |- _ => apply N.eqb_eq in Hx; rename Hx into Hrows end.
    cbn [flat_map]. rewrite <- app_assoc. unfold attr_block at 1.
    cbn [List.app run_lines].
    rewrite (step_scalars s (Some nv) pts tris pattrs (at_name a) (at_k a) Hk Ha' Hs).
    rewrite step_lookup.
    replace (MScalars (at_name a) (at_k a) nv []) with (MScalars (at_name a) (at_k a) (lenN (at_rows a) + 0) [])
      by (f_equal; lia).
    rewrite run_scalar_rows by assumption.
    destruct (IH (mkst (MScalars (at_name a) (at_k a) 0 (rev (at_rows a) ++ [])) (Some nv) pts tris pattrs)
                 pts tris (to_pattr a :: pattrs) rest Hr) as (s' & Hrun & Hs').
    { cbn [settle mkst ps_mode ps_nv ps_pts ps_tris ps_attrs]. rewrite app_nil_r, rev_involutive. reflexivity. }
    exists s'. split; [exact Hrun|]. rewrite Hs'. cbn [map rev]. rewrite <- app_assoc. reflexivity.
Qed.

Definition is_nl (c : N) : bool := (c =? 10) || (c =? 13).

Lemma existsb_firstn_false : forall {A} (p : A -> bool) n l, existsb p l = false -> existsb p (firstn n l) = false.
Proof.
  intros A p n. induction n as [|n IH]; intros [|x l] H; try reflexivity.
  cbn [existsb firstn] in *. apply orb_false_iff in H as [Hx Hl]. rewrite Hx, (IH l Hl). reflexivity.
Qed.

Lemma title_line_clean : forall title version, existsb is_nl (title ++ version) = false ->
  existsb is_nl (title_line title version) = false.
Proof.
  intros title version H. rewrite existsb_app in H. apply orb_false_iff in H as [Ht Hv].
  unfold title_line. apply existsb_firstn_false. unfold suffix_text.
  rewrite !existsb_app. rewrite Hv.
  destruct title as [|c t]; [reflexivity|]. rewrite existsb_app, Ht. reflexivity.
Qed.

Lemma header_ok_written : forall tl, existsb is_nl tl = false ->
  header_ok LMagic (LTitle tl) LAscii LDataset = true.
Proof.
  intros tl Hnl. unfold header_ok. cbn [comment_ok]. fold is_nl. rewrite Hnl. reflexivity.
Qed.

Lemma no_newline_title : forall title version, existsb is_nl (title ++ version) = false ->
  existsb (N.eqb 10) title = false.
Proof.
  intros title version H. rewrite existsb_app in H. apply orb_false_iff in H as [Ht _].
  induction title as [|c t IH]; [reflexivity|]. cbn [existsb] in *.
  apply orb_false_iff in Ht as [Hc Hr]. unfold is_nl in Hc. apply orb_false_iff in Hc as [H10 _].
  rewrite N.eqb_sym, H10, (IH Hr). reflexivity.
Qed.

Lemma vtk_parses_on_guard_lemma : forall title version vs ts attrs,
  vtk_guard title version vs ts attrs = true ->
  exists ls, vtk_write title version vs ts attrs = Ok ls /\
             vtk_grammar ls = Some (expected_mesh vs ts attrs).
Proof.
  intros title version vs ts attrs Hg. unfold vtk_guard in Hg.
  apply andb_prop in Hg as [Hg Hattrs]. apply andb_prop in Hg as [Hg Hts].
  apply negb_true_iff in Hg. fold is_nl in Hg. rename Hg into Hnl.
  change (forallb tri_nonneg ts = true) in Hts.
  pose proof (header_ok_written _ (title_line_clean _ _ Hnl)) as Hh.
  unfold vtk_write. rewrite (no_newline_title _ _ Hnl).
  assert (Hpts : forall rest,
    run_lines init_state (LPoints (lenN vs) :: map vert_row vs ++ LPolygons (lenN ts) (4 * lenN ts)
                            :: map tri_row ts ++ rest) =
    run_lines (mkst (MPolys 0) (Some (lenN vs)) (rev (map (fun '(a, b, c) => [a; b; c]) vs))
                    (Some (rev (map tri_toN ts))) []) rest).
  { intro rest. cbn [run_lines]. change init_state with (mkst MTop None [] None []).
    rewrite step_points_header by reflexivity. cbn [settle mkst ps_mode ps_tris ps_attrs].
    replace (MPoints (lenN vs)) with (MPoints (lenN vs + 0)) by (f_equal; lia).
    rewrite run_vert_rows. cbn [run_lines]. rewrite step_polys_header.
    replace (MPolys (lenN ts)) with (MPolys (lenN ts + 0)) by (f_equal; lia).
    rewrite run_tri_rows by exact Hts. rewrite !app_nil_r. reflexivity. }
  assert (Hexp_pts : rev (rev (map (fun '(a, b, c) => [a; b; c]) vs)) = vm_points (expected_mesh vs ts attrs))
    by (rewrite rev_involutive; reflexivity).
  assert (Hexp_tris : rev (rev (map tri_toN ts)) = vm_tris (expected_mesh vs ts attrs))
    by (rewrite rev_involutive; reflexivity).
  destruct attrs as [|a0 ar].
  - eexists. split; [reflexivity|].
    unfold vtk_grammar. cbn [List.app]. rewrite Hh.
    specialize (Hpts []). rewrite app_nil_r in Hpts. rewrite Hpts. cbn [run_lines settle mkst ps_mode set_mode
      ps_nv ps_pts ps_tris ps_attrs]. rewrite ?rev_involutive. reflexivity.
  - rewrite (attr_lines_ok _ _ Hattrs). cbn [bind]. eexists. split; [reflexivity|].
    unfold vtk_grammar. cbn [List.app]. rewrite Hh.
    rewrite <- !app_assoc. cbn [List.app].
    rewrite (Hpts (LPointData (lenN vs) :: flat_map attr_block (a0 :: ar))).
    cbn [run_lines]. rewrite step_point_data.
    destruct (run_attr_blocks (lenN vs) (a0 :: ar)
                (mkst MPointData (Some (lenN vs)) (rev (map (fun '(a, b, c) => [a; b; c]) vs))
                      (Some (rev (map tri_toN ts))) [])
                _ _ [] [] Hattrs eq_refl) as (s' & Hrun & Hs').
    rewrite app_nil_r in Hrun. rewrite Hrun. cbn [run_lines]. rewrite Hs'.
    cbn [mkst ps_mode ps_nv ps_tris ps_pts ps_attrs]. rewrite app_nil_r, ?rev_involutive.
    reflexivity.
Qed.
