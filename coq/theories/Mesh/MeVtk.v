(* mesh.save_mesh_as_neuroglancer_vtk as a list of structured lines, and the
   subset of the legacy VTK ASCII grammar that Neuroglancer's parser accepts
   (datasource/vtk/parse.ts at the commit cited in the docstring of the
   writer), written as a line-by-line state machine.

   What the parser does, as far as it matters for files produced here:
   * the header is the magic line, one comment line, ASCII, DATASET POLYDATA;
     the comment is dot-star, which does not cross a line terminator.
     (Neuroglancer's parser looks for the header inside a fixed-size window
     at the start of the file; the length of that window is NOT modelled
     here: the grammar accepts a comment line of any length.)
   * then lines are read one at a time: blank lines are skipped;
     `POINTS n type` is followed by n lines of (at least) 3 numbers;
     `POLYGONS m k` requires k = 4 m and is followed by m lines `3 a b c`
     with a, b, c matching [0-9]+;  `POINT_DATA n` requires n = number of
     points and is followed by any number of
     `SCALARS name type [k]` / `LOOKUP_TABLE t` / n lines of k numbers,
     where name and type are [^\s]+ and k is [0-9]+ (default 1);
   * both POINTS and POLYGONS must have been seen.
   Numbers are carried as float32 bit patterns (np.savetxt with %.9g, which
   round-trips float32; formatting itself is outside the model and is
   checked by the harness on every value written). *)
From Coq Require Import NArith ZArith List Bool Lia.
From NGS Require Import Val Ints.
Import ListNotations.
Open Scope N_scope.

Inductive vline :=
| LMagic                                  (* "# vtk DataFile Version 3.0" *)
| LTitle (s : list N)                     (* title[:255] *)
| LAscii                                  (* "ASCII" *)
| LDataset                                (* "DATASET POLYDATA" *)
| LPoints (n : N)                         (* "POINTS n float" *)
| LPolygons (m n4 : N)                    (* "POLYGONS m n4" *)
| LPointData (n : N)                      (* "POINT_DATA n" *)
| LScalars (name : list N) (k : option N) (* "SCALARS name float[ k]" *)
| LLookup                                 (* "LOOKUP_TABLE default" *)
| LFloats (bits : list N)                 (* one np.savetxt row, fmt %.9g *)
| LInts (zs : list Z).                    (* one np.savetxt row, fmt %d *)

(* ---------- writer ---------- *)

Record vattr := {
  at_name : list N;
  at_len : N;                 (* values.shape[0] *)
  at_ndim : N;                (* values.ndim *)
  at_k : N;                   (* number of components after the 1-D -> column reshape *)
  at_rows : list (list N)     (* rows of at_k float32 bit patterns *)
}.

(* Python's \s on ASCII text: \t \n \v \f \r, \x1c..\x1f, space *)
Definition py_space (c : N) : bool :=
  ((9 <=? c) && (c <=? 13)) || ((28 <=? c) && (c <=? 32)).

(* assert name and re.search("\\s", name) is None *)
Definition name_assert_passes (name : list N) : bool :=
  match name with [] => false | _ => negb (existsb py_space name) end.

Definition suffix_text (version : list N) : list N :=
  (* "Written by neuroglancer-scripts-" ++ version ++ "." *)
  [87;114;105;116;116;101;110;32;98;121;32;110;101;117;114;111;103;108;97;110;99;101;114;45;
   115;99;114;105;112;116;115;45] ++ version ++ [46].

Definition title_line (title version : list N) : list N :=
  firstn 255 ((match title with [] => [] | _ => title ++ [46; 32] end) ++ suffix_text version).

Fixpoint attr_lines (nv : N) (attrs : list vattr) : outcome (list vline) :=
  match attrs with
  | [] => Ok []
  | a :: r =>
      if negb (name_assert_passes (at_name a)) then Crash AssertionError else
      if negb (at_len a =? nv) then Crash AssertionError else
      if negb ((at_ndim a =? 1) || (at_ndim a =? 2)) then Crash AssertionError else
      bind (attr_lines nv r) (fun rest =>
        Ok (LScalars (at_name a) (if at_k a =? 1 then None else Some (at_k a))
            :: LLookup :: map LFloats (at_rows a) ++ rest))
  end.

Definition tri_row (t : Z * Z * Z) : vline := let '(a, b, c) := t in LInts [3%Z; a; b; c].
Definition vert_row (v : N * N * N) : vline := let '(a, b, c) := v in LFloats [a; b; c].

Definition vtk_write (title version : list N) (vs : list (N * N * N)) (ts : list (Z * Z * Z))
           (attrs : list vattr) : outcome (list vline) :=
  if existsb (N.eqb 10) title then Crash AssertionError else
  let head := [LMagic; LTitle (title_line title version); LAscii; LDataset;
               LPoints (lenN vs)] ++ map vert_row vs ++
              [LPolygons (lenN ts) (4 * lenN ts)] ++ map tri_row ts in
  match attrs with
  | [] => Ok head
  | _ => bind (attr_lines (lenN vs) attrs) (fun al => Ok (head ++ LPointData (lenN vs) :: al))
  end.

(* ---------- grammar (what Neuroglancer accepts) ---------- *)

Inductive gtok := GW (s : list N) | GI (z : Z) | GF (bits : N).

Definition is_blank_char (c : N) : bool := (c =? 32) || (c =? 9).

(* split a text line at runs of space / tab *)
Fixpoint tokenize_aux (l : list N) (cur : list N) : list (list N) :=
  match l with
  | [] => match cur with [] => [] | _ => [rev cur] end
  | c :: r => if is_blank_char c
              then match cur with [] => tokenize_aux r [] | _ => rev cur :: tokenize_aux r [] end
              else tokenize_aux r (c :: cur)
  end.
Definition tokenize (l : list N) : list (list N) := tokenize_aux l [].

Definition w_magic := [[35]; [118;116;107]; [68;97;116;97;70;105;108;101]; [86;101;114;115;105;111;110]].
Definition w_ascii : list N := [65;83;67;73;73].
Definition w_dataset : list N := [68;65;84;65;83;69;84].
Definition w_polydata : list N := [80;79;76;89;68;65;84;65].
Definition w_points : list N := [80;79;73;78;84;83].
Definition w_polygons : list N := [80;79;76;89;71;79;78;83].
Definition w_point_data : list N := [80;79;73;78;84;95;68;65;84;65].
Definition w_scalars : list N := [83;67;65;76;65;82;83].
Definition w_lookup : list N := [76;79;79;75;85;80;95;84;65;66;76;69].
Definition w_float : list N := [102;108;111;97;116].
Definition w_default : list N := [100;101;102;97;117;108;116].
Definition w_3_0 : list N := [51;46;48].

Definition toks (l : vline) : list gtok :=
  match l with
  | LMagic => map GW (w_magic ++ [w_3_0])
  | LTitle s => map GW (tokenize s)
  | LAscii => [GW w_ascii]
  | LDataset => [GW w_dataset; GW w_polydata]
  | LPoints n => [GW w_points; GI (Z.of_N n); GW w_float]
  | LPolygons m n4 => [GW w_polygons; GI (Z.of_N m); GI (Z.of_N n4)]
  | LPointData n => [GW w_point_data; GI (Z.of_N n)]
  | LScalars name k =>
      GW w_scalars :: map GW (tokenize name) ++ [GW w_float] ++
      match k with Some k => [GI (Z.of_N k)] | None => [] end
  | LLookup => [GW w_lookup; GW w_default]
  | LFloats bs => map GF bs
  | LInts zs => map GI zs
  end.

Definition bytes_eqb (a b : list N) : bool :=
  (length a =? length b)%nat && forallb (fun '(x, y) => x =? y) (combine a b).
Definition is_word (w : list N) (t : gtok) : bool :=
  match t with GW s => bytes_eqb s w | _ => false end.
(* [0-9]+ *)
Definition as_count (t : gtok) : option N :=
  match t with GI z => if (0 <=? z)%Z then Some (Z.to_N z) else None | _ => None end.
(* a number position: parseFloat of whatever text stands there *)
Definition as_number (t : gtok) : option N :=
  match t with GF b => Some b | _ => None end.

(* `.` of a JavaScript regular expression does not match \n or \r *)
Definition comment_ok (l : vline) : bool :=
  match l with LTitle s => negb (existsb (fun c => (c =? 10) || (c =? 13)) s) | _ => false end.

Definition header_ok (l0 l1 l2 l3 : vline) : bool :=
  match toks l0 with
  | [t0; t1; t2; t3; _] =>
      match w_magic with
      | [m0; m1; m2; m3] => is_word m0 t0 && is_word m1 t1 && is_word m2 t2 && is_word m3 t3
      | _ => false end
  | _ => false end &&
  comment_ok l1 &&
  match toks l2 with [t] => is_word w_ascii t | _ => false end &&
  match toks l3 with [t; u] => is_word w_dataset t && is_word w_polydata u | _ => false end.

Record pattr := { pa_name : list N; pa_k : N; pa_rows : list (list N) }.

Inductive mode :=
| MTop
| MPoints (left : N)
| MPolys (left : N)
| MPointData
| MLookup (name : list N) (k : N)
| MScalars (name : list N) (k : N) (left : N) (acc : list (list N)).

Record pstate := {
  ps_mode : mode;
  ps_nv : option N;
  ps_pts : list (list N);                 (* reversed *)
  ps_tris : option (list (N * N * N));    (* reversed *)
  ps_attrs : list pattr                   (* reversed *)
}.

Definition set_mode (s : pstate) (m : mode) : pstate :=
  {| ps_mode := m; ps_nv := ps_nv s; ps_pts := ps_pts s; ps_tris := ps_tris s; ps_attrs := ps_attrs s |}.

(* an array that has received all its rows hands control back *)
Definition settle (s : pstate) : pstate :=
  match ps_mode s with
  | MPoints 0 => set_mode s MTop
  | MPolys 0 => set_mode s MTop
  | MScalars name k 0 acc =>
      {| ps_mode := MPointData; ps_nv := ps_nv s; ps_pts := ps_pts s; ps_tris := ps_tris s;
         ps_attrs := {| pa_name := name; pa_k := k; pa_rows := rev acc |} :: ps_attrs s |}
  | _ => s
  end.

Fixpoint take_numbers (k : nat) (l : list gtok) : option (list N) :=
  match k with
  | O => Some []
  | S k' => match l with
            | t :: r => match as_number t, take_numbers k' r with
                        | Some b, Some bs => Some (b :: bs) | _, _ => None end
            | [] => None end
  end.

Definition step (s0 : pstate) (l : vline) : option pstate :=
  let s := settle s0 in
  let ts := toks l in
  match ps_mode s with
  | MPoints left_ =>
      match take_numbers 3 ts with
      | Some row => Some {| ps_mode := MPoints (left_ - 1); ps_nv := ps_nv s;
                            ps_pts := row :: ps_pts s; ps_tris := ps_tris s; ps_attrs := ps_attrs s |}
      | None => None end
  | MPolys left_ =>
      match ts with
      | [t3; a; b; c] =>
          match as_count t3, as_count a, as_count b, as_count c with
          | Some 3, Some a, Some b, Some c =>
              Some {| ps_mode := MPolys (left_ - 1); ps_nv := ps_nv s; ps_pts := ps_pts s;
                      ps_tris := match ps_tris s with Some l => Some ((a, b, c) :: l) | None => Some [(a, b, c)] end;
                      ps_attrs := ps_attrs s |}
          | _, _, _, _ => None end
      | _ => None end
  | MScalars name k left_ acc =>
      match take_numbers (N.to_nat k) ts with
      | Some row => Some (set_mode s (MScalars name k (left_ - 1) (row :: acc)))
      | None => None end
  | MLookup name k =>
      match ts with
      | [t; _] => if is_word w_lookup t
                  then match ps_nv s with
                       | Some nv => Some (set_mode s (MScalars name k nv []))
                       | None => None end
                  else None
      | _ => None end
  | MPointData =>
      match ts with
      | [] => Some s
      | [t; GW name; GW _] => if is_word w_scalars t then Some (set_mode s (MLookup name 1)) else None
      | [t; GW name; GW _; kk] =>
          if is_word w_scalars t
          then match as_count kk with
               | Some k => if k =? 0 then None else Some (set_mode s (MLookup name k))
               | None => None end
          else None
      | _ => None end
  | MTop =>
      match ts with
      | [] => Some s
      | [t; a; _] =>
          if is_word w_points t then
            match as_count a with
            | Some n => Some {| ps_mode := MPoints n; ps_nv := Some n; ps_pts := [];
                                ps_tris := ps_tris s; ps_attrs := ps_attrs s |}
            | None => None end
          else if is_word w_polygons t then
            match as_count a, (match ts with [_; _; b] => as_count b | _ => None end) with
            | Some m, Some n4 =>
                if n4 =? 4 * m
                then Some {| ps_mode := MPolys m; ps_nv := ps_nv s; ps_pts := ps_pts s;
                             ps_tris := Some []; ps_attrs := ps_attrs s |}
                else None
            | _, _ => None end
          else None
      | [t; a] =>
          if is_word w_point_data t then
            match as_count a, ps_nv s with
            | Some n, Some nv => if n =? nv then Some (set_mode s MPointData) else None
            | _, _ => None end
          else None
      | _ => None end
  end.

Fixpoint run_lines (s : pstate) (ls : list vline) : option pstate :=
  match ls with
  | [] => Some (settle s)
  | l :: r => match step s l with Some s' => run_lines s' r | None => None end
  end.

Record vtk_mesh := {
  vm_points : list (list N);
  vm_tris : list (N * N * N);
  vm_attrs : list pattr
}.

Definition init_state : pstate :=
  {| ps_mode := MTop; ps_nv := None; ps_pts := []; ps_tris := None; ps_attrs := [] |}.

Definition vtk_grammar (ls : list vline) : option vtk_mesh :=
  match ls with
  | l0 :: l1 :: l2 :: l3 :: body =>
      if header_ok l0 l1 l2 l3 then
        match run_lines init_state body with
        | Some s =>
            match ps_mode s, ps_nv s, ps_tris s with
            | MTop, Some _, Some ts | MPointData, Some _, Some ts =>
                Some {| vm_points := rev (ps_pts s); vm_tris := rev ts; vm_attrs := rev (ps_attrs s) |}
            | _, _, _ => None
            end
        | None => None end
      else None
  | _ => None
  end.

(* ---------- guard: well-formedness of the input of the export ----------
   (no line break in the title line, triangle indices that are indices,
   attribute tables of the announced shape with at least one component and
   names that pass the writer's own assertion) *)

Definition name_ok (name : list N) : bool :=
  match name with [] => false | _ => negb (existsb py_space name) end.

Definition attr_ok (nv : N) (a : vattr) : bool :=
  name_ok (at_name a) && (at_len a =? nv) && ((at_ndim a =? 1) || (at_ndim a =? 2)) &&
  (1 <=? at_k a) && (lenN (at_rows a) =? nv) &&
  forallb (fun r => lenN r =? at_k a) (at_rows a).

Definition vtk_guard (title version : list N) (vs : list (N * N * N)) (ts : list (Z * Z * Z))
           (attrs : list vattr) : bool :=
  negb (existsb (fun c => (c =? 10) || (c =? 13)) (title ++ version)) &&
  forallb (fun '(a, b, c) => (0 <=? a)%Z && (0 <=? b)%Z && (0 <=? c)%Z) ts &&
  forallb (attr_ok (lenN vs)) attrs.

Definition expected_mesh (vs : list (N * N * N)) (ts : list (Z * Z * Z)) (attrs : list vattr) : vtk_mesh :=
  {| vm_points := map (fun '(a, b, c) => [a; b; c]) vs;
     vm_tris := map (fun '(a, b, c) => (Z.to_N a, Z.to_N b, Z.to_N c)) ts;
     vm_attrs := map (fun a => {| pa_name := at_name a; pa_k := at_k a; pa_rows := at_rows a |}) attrs |}.
