(* mesh.affine_transform_mesh and the millimetre -> nanometre scaling of
   mesh_to_precomputed, over an arbitrary commutative ring (generic section)
   and, for the executable model, over Z.  Signed volumes are the 3x3
   determinants of the property statement. *)
From Coq Require Import ZArith List Bool Lia.
From NGS Require Import Val.
Import ListNotations.

Section Generic.
  Variable R : Type.
  Variables (rO rI : R) (radd rmul rsub : R -> R -> R) (ropp : R -> R).

  Local Infix "+" := radd.
  Local Infix "*" := rmul.
  Local Infix "-" := rsub.
  Local Notation "- x" := (ropp x).

  Definition vec : Type := (R * R * R)%type.
  (* rows of the 3x3 part and the translation column *)
  Record affine := { a_r1 : vec; a_r2 : vec; a_r3 : vec; a_t : vec }.

  Definition dot (u v : vec) : R :=
    let '(u1, u2, u3) := u in let '(v1, v2, v3) := v in u1 * v1 + u2 * v2 + u3 * v3.
  Definition vadd (u v : vec) : vec :=
    let '(u1, u2, u3) := u in let '(v1, v2, v3) := v in (u1 + v1, u2 + v2, u3 + v3).
  Definition vsub (u v : vec) : vec :=
    let '(u1, u2, u3) := u in let '(v1, v2, v3) := v in (u1 - v1, u2 - v2, u3 - v3).
  Definition vscale (k : R) (u : vec) : vec :=
    let '(u1, u2, u3) := u in (k * u1, k * u2, k * u3).

  (* np.dot(M[:3,:3], v) and ... + M[:3,3] *)
  Definition lin (m : affine) (v : vec) : vec := (dot (a_r1 m) v, dot (a_r2 m) v, dot (a_r3 m) v).
  Definition app (m : affine) (v : vec) : vec := vadd (lin m v) (a_t m).

  (* determinant with columns a, b, c = six times the signed volume of the
     tetrahedron (0, a, b, c) *)
  Definition det3 (a b c : vec) : R :=
    let '(a1, a2, a3) := a in let '(b1, b2, b3) := b in let '(c1, c2, c3) := c in
    a1 * (b2 * c3 - b3 * c2) - b1 * (a2 * c3 - a3 * c2) + c1 * (a2 * b3 - a3 * b2).
  (* determinant of the 3x3 part (rows) *)
  Definition detM (m : affine) : R :=
    let '(r11, r12, r13) := a_r1 m in let '(r21, r22, r23) := a_r2 m in
    let '(r31, r32, r33) := a_r3 m in
    r11 * (r22 * r33 - r23 * r32) - r12 * (r21 * r33 - r23 * r31) + r13 * (r21 * r32 - r22 * r31).
  (* signed volume (x6) of the tetrahedron (p, a, b, c): positive iff the
     triangle (a, b, c) is seen counter-clockwise from outside when p is inside *)
  Definition vol (p a b c : vec) : R := det3 (vsub a p) (vsub b p) (vsub c p).

End Generic.

Arguments Build_affine {R}.
Arguments a_r1 {R}. Arguments a_r2 {R}. Arguments a_r3 {R}. Arguments a_t {R}.

(* ---------- executable instance over Z ---------- *)
Open Scope Z_scope.

Definition zvec : Type := vec Z.
Definition zaffine : Type := affine Z.
Definition zlin := lin Z Z.add Z.mul.
Definition zapp := app Z Z.add Z.mul.
Definition zdet3 := det3 Z Z.add Z.mul Z.sub.
Definition zdetM := detM Z Z.add Z.mul Z.sub.
Definition zvol := vol Z Z.add Z.mul Z.sub.
Definition zscale := vscale Z Z.mul.

Definition ztri : Type := (Z * Z * Z)%type.
Definition flip_tri (t : ztri) : ztri := let '(a, b, c) := t in (c, b, a).

(* affine_transform_mesh: [rows] is coord_transform.shape[0]; for a 4-row
   matrix the last row must be exactly [0, 0, 0, 1] (assert).  The triangle
   columns are reversed iff det < 0 (a zero determinant does not flip). *)
Definition affine_transform_mesh (rows : Z) (last_row : list Z) (m : zaffine)
           (vs : list zvec) (ts : list ztri) : outcome (list zvec * list ztri) :=
  if (rows =? 4) && negb (match last_row with
                          | [a; b; c; d] => (a =? 0) && (b =? 0) && (c =? 0) && (d =? 1)
                          | _ => false end)
  then Crash AssertionError
  else Ok (map (zapp m) vs, if zdetM m <? 0 then map flip_tri ts else ts).

(* Gifti millimetres -> Neuroglancer nanometres: points = 1e6 * points *)
Definition mm_to_nm (vs : list zvec) : list zvec := map (zscale 1000000) vs.

(* vertex triple of a triangle *)
Definition corners (vs : list zvec) (t : ztri) : option (zvec * zvec * zvec) :=
  let '(a, b, c) := t in
  match nth_error vs (Z.to_nat a), nth_error vs (Z.to_nat b), nth_error vs (Z.to_nat c) with
  | Some pa, Some pb, Some pc => Some (pa, pb, pc)
  | _, _, _ => None
  end.

(* six times the signed volume enclosed by the mesh (origin as apex) *)
Definition signed_volume6 (vs : list zvec) (ts : list ztri) : Z :=
  fold_right (fun t acc => match corners vs t with
                           | Some (a, b, c) => zdet3 a b c + acc
                           | None => acc end) 0 ts.
