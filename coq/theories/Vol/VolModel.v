(* Model of volume_reader.volume_to_precomputed: the chunk loop, the slicing
   of the (X,Y,Z,C) volume, the element-wise value transformation and the
   axis reversal to (C,Z,Y,X), written over the I/O layer of PioModel. *)
From Coq Require Import NArith ZArith List Bool Lia.
From NGS Require Import Val Ints PioModel.
Import ListNotations.
Open Scope Z_scope.

Definition zrange (a b : Z) : list Z := map (fun i => a + Z.of_nat i) (seq 0 (Z.to_nat (b - a))).

Definition axis_chunks_z (size cs : Z) : list (Z * Z) :=
  map (fun i => (cs * i, Z.min (cs * (i + 1)) size)) (zrange 0 ((size - 1) / cs + 1)).

(* loop order of volume_to_precomputed: z outermost, then y, then x *)
Definition vgrid (size cs : triple) : list coords :=
  let '(sx, sy, sz) := size in let '(cx, cy, cz) := cs in
  flat_map (fun zr =>
    flat_map (fun yr =>
      map (fun xr => (fst xr, snd xr, fst yr, snd yr, fst zr, snd zr)) (axis_chunks_z sx cx))
      (axis_chunks_z sy cy))
    (axis_chunks_z sz cz).

Section Vol.
  Variable V : Type.
  Variable f : V -> V.                       (* element-wise dtype transformer (C11) *)
  Variable vol : Z -> Z -> Z -> Z -> V.      (* input volume, (x, y, z, channel) *)
  Variable nch : Z.

  (* chunk contents in (C, Z, Y, X) order *)
  Definition extract (c : coords) : list V :=
    let '(x0, x1, y0, y1, z0, z1) := c in
    flat_map (fun ch => flat_map (fun z => flat_map (fun y =>
      map (fun x => f (vol x y z ch)) (zrange x0 x1)) (zrange y0 y1)) (zrange z0 z1)) (zrange 0 nch).

  Definition vchunk := (triple * list V)%type.       (* (X,Y,Z extents), data *)
  Definition vshape (c : vchunk) : triple := fst c.
  Definition mk_chunk (c : coords) : vchunk := (extents c, extract c).

  Definition convert_ops (key : list N) (size cs : triple) : list (op vchunk) :=
    map (fun c => Write vchunk (mk_chunk c) key c) (vgrid size cs).

  (* the chunk of the grid that holds voxel (x, y, z) *)
  Definition chunk_of (size cs : triple) (x y z : Z) : coords :=
    let '(sx, sy, sz) := size in let '(cx, cy, cz) := cs in
    (x / cx * cx, Z.min (x / cx * cx + cx) sx,
     y / cy * cy, Z.min (y / cy * cy + cy) sy,
     z / cz * cz, Z.min (z / cz * cz + cz) sz).

  (* the voxel (x, y, z, ch) inside a decoded chunk with coordinates c *)
  Definition voxel_in (c : coords) (data : list V) (x y z ch : Z) : option V :=
    let '(x0, x1, y0, y1, z0, z1) := c in
    nth_error data (Z.to_nat (((ch * (z1 - z0) + (z - z0)) * (y1 - y0) + (y - y0)) * (x1 - x0) + (x - x0))).
End Vol.
