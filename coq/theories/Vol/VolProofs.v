(* Proofs for C01: the conversion loop of VolModel writes every grid chunk,
   every write is valid, and every voxel can be read back at its place. *)
From Coq Require Import NArith ZArith List Bool Lia.
From NGS Require Import Val Ints PioModel PioProofs VolModel.
Import ListNotations.
Open Scope Z_scope.

(* ---------- zrange ---------- *)
Lemma zrange_length a b : length (zrange a b) = Z.to_nat (b - a).
Proof. unfold zrange. rewrite map_length, seq_length. reflexivity. Qed.

Lemma in_zrange a b i : In i (zrange a b) <-> a <= i < b.
Proof.
  unfold zrange. rewrite in_map_iff. split.
  - intros (n & Hn & Hin). apply in_seq in Hin. lia.
  - intros H. exists (Z.to_nat (i - a)). split; [lia|]. apply in_seq. lia.
Qed.

Lemma nth_error_zrange a b k : (k < Z.to_nat (b - a))%nat ->
  nth_error (zrange a b) k = Some (a + Z.of_nat k).
Proof.
  intros Hk. unfold zrange.
  rewrite nth_error_map.
  rewrite (nth_error_nth' _ 0%nat) by (rewrite seq_length; exact Hk).
  rewrite seq_nth by exact Hk. reflexivity.
Qed.

(* ---------- flat_map with uniform inner length ---------- *)
Lemma length_flat_map_uniform {A B} (g : A -> list B) l m :
  (forall a, In a l -> length (g a) = m) ->
  length (flat_map g l) = (length l * m)%nat.
Proof.
  induction l as [|a l IH]; intros Hu; [reflexivity|].
  cbn [flat_map length]. rewrite app_length, IH, Hu.
  - reflexivity.
  - left; reflexivity.
  - intros a' Ha'. apply Hu. right; exact Ha'.
Qed.

Lemma nth_error_flat_map_uniform {A B} (g : A -> list B) l m : forall i j a,
  (forall a, In a l -> length (g a) = m) ->
  nth_error l i = Some a -> (j < m)%nat ->
  nth_error (flat_map g l) (i * m + j) = nth_error (g a) j.
Proof.
  induction l as [|a0 l IH]; intros i j a Hu Hi Hj.
  - destruct i; discriminate.
  - cbn [flat_map]. destruct i as [|i].
    + cbn [nth_error] in Hi. injection Hi as ->.
      cbn [Nat.mul Nat.add]. apply nth_error_app1.
      rewrite Hu by (left; reflexivity). exact Hj.
    + cbn [nth_error] in Hi.
      assert (length (g a0) = m) as Hl by (apply Hu; left; reflexivity).
      rewrite nth_error_app2 by (rewrite Hl; lia).
      replace (S i * m + j - length (g a0))%nat with (i * m + j)%nat by (rewrite Hl; lia).
      apply IH; [|exact Hi|exact Hj].
      intros a' Ha'. apply Hu. right; exact Ha'.
Qed.

(* indexing a uniform flat_map over a zrange with Z arithmetic *)
Lemma nth_error_flat_map_zrange {B} (g : Z -> list B) a b M i J :
  (forall k, a <= k < b -> length (g k) = Z.to_nat M) ->
  a <= i < b -> 0 <= J < M ->
  nth_error (flat_map g (zrange a b)) (Z.to_nat ((i - a) * M + J))
  = nth_error (g i) (Z.to_nat J).
Proof.
  intros Hu Hi HJ.
  assert (0 <= (i - a) * M) as Hnn by nia.
  rewrite Z2Nat.inj_add by lia.
  rewrite Z2Nat.inj_mul by lia.
  apply nth_error_flat_map_uniform.
  - intros k Hk. apply Hu. apply in_zrange. exact Hk.
  - rewrite nth_error_zrange by lia. f_equal. lia.
  - lia.
Qed.

Lemma nth_error_map_zrange {B} (h : Z -> B) a b i :
  a <= i < b ->
  nth_error (map h (zrange a b)) (Z.to_nat (i - a)) = Some (h i).
Proof.
  intros Hi. rewrite nth_error_map, nth_error_zrange by lia.
  cbn [option_map]. do 2 f_equal. lia.
Qed.

(* ---------- the chunk grid ---------- *)
Lemma axis_count_nonneg s c : 0 < s -> 0 < c -> 0 <= (s - 1) / c.
Proof. intros Hs Hc. apply Z.div_pos; lia. Qed.

Lemma axis_chunks_z_length s c : 0 < s -> 0 < c ->
  Z.of_nat (length (axis_chunks_z s c)) = (s - 1) / c + 1.
Proof.
  intros Hs Hc. unfold axis_chunks_z. rewrite map_length, zrange_length.
  pose proof (axis_count_nonneg s c Hs Hc). lia.
Qed.

Lemma in_axis_chunks_z s c a b : 0 < s -> 0 < c ->
  In (a, b) (axis_chunks_z s c) -> on_grid_axis a b c s.
Proof.
  intros Hs Hc Hin. unfold axis_chunks_z in Hin.
  apply in_map_iff in Hin. destruct Hin as (i & Heq & Hi).
  apply in_zrange in Hi. injection Heq as <- <-.
  assert (c * i <= s - 1) as Hle.
  { assert (i <= (s - 1) / c) as Hi' by lia.
    pose proof (Z.mul_div_le (s - 1) c Hc) as Hm. nia. }
  exists i. split; [lia|]. split; [lia|]. split; [lia|].
  f_equal. lia.
Qed.

Lemma in_vgrid size cs c :
  In c (vgrid size cs) <->
  let '(sx, sy, sz) := size in let '(cx, cy, cz) := cs in
  let '(x0, x1, y0, y1, z0, z1) := c in
  In (x0, x1) (axis_chunks_z sx cx) /\ In (y0, y1) (axis_chunks_z sy cy) /\
  In (z0, z1) (axis_chunks_z sz cz).
Proof.
  destruct size as [[sx sy] sz], cs as [[cx cy] cz].
  destruct c as [[[[[x0 x1] y0] y1] z0] z1].
  unfold vgrid. rewrite in_flat_map. split.
  - intros (zr & Hz & Hin). apply in_flat_map in Hin. destruct Hin as (yr & Hy & Hin).
    apply in_map_iff in Hin. destruct Hin as (xr & Heq & Hx).
    destruct xr as [a b], yr as [a' b'], zr as [a'' b'']. cbn [fst snd] in Heq.
    injection Heq as <- <- <- <- <- <-. auto.
  - intros (Hx & Hy & Hz). exists (z0, z1). split; [exact Hz|].
    apply in_flat_map. exists (y0, y1). split; [exact Hy|].
    apply in_map_iff. exists (x0, x1). split; [reflexivity|exact Hx].
Qed.

Lemma vgrid_valid : forall size cs c,
  pos_triple size -> pos_triple cs -> In c (vgrid size cs) ->
  valid_for c size cs = Ok true.
Proof.
  intros size cs c Hs Hc Hin.
  destruct (valid_for_spec c size cs Hc) as (b & E & S).
  rewrite E. f_equal. apply S.
  apply in_vgrid in Hin.
  destruct size as [[sx sy] sz], cs as [[cx cy] cz].
  destruct c as [[[[[x0 x1] y0] y1] z0] z1].
  destruct Hs as (Hsx & Hsy & Hsz). destruct Hc as (Hcx & Hcy & Hcz).
  destruct Hin as (Hx & Hy & Hz).
  repeat split; apply in_axis_chunks_z; assumption.
Qed.

Lemma vgrid_count : forall sx sy sz cx cy cz,
  pos_triple (sx, sy, sz) -> pos_triple (cx, cy, cz) ->
  Z.of_nat (length (vgrid (sx, sy, sz) (cx, cy, cz)))
  = ((sx - 1) / cx + 1) * ((sy - 1) / cy + 1) * ((sz - 1) / cz + 1).
Proof.
  intros sx sy sz cx cy cz (Hsx & Hsy & Hsz) (Hcx & Hcy & Hcz).
  unfold vgrid.
  rewrite (length_flat_map_uniform _ _
             (length (axis_chunks_z sy cy) * length (axis_chunks_z sx cx))%nat).
  - rewrite !Nat2Z.inj_mul, !axis_chunks_z_length by assumption. ring.
  - intros zr _.
    rewrite (length_flat_map_uniform _ _ (length (axis_chunks_z sx cx))).
    + reflexivity.
    + intros yr _. apply map_length.
Qed.

(* ---------- the chunk that holds a voxel ---------- *)
Lemma in_axis_chunk_of s c x : 0 < c -> 0 <= x < s ->
  In (x / c * c, Z.min (x / c * c + c) s) (axis_chunks_z s c).
Proof.
  intros Hc Hx. unfold axis_chunks_z. apply in_map_iff.
  exists (x / c). split.
  - f_equal; [ring|]. f_equal. ring.
  - apply in_zrange. split; [apply Z.div_pos; lia|].
    assert (x / c <= (s - 1) / c) by (apply Z.div_le_mono; lia). lia.
Qed.

Lemma chunk_of_in_vgrid sx sy sz cx cy cz x y z :
  pos_triple (cx, cy, cz) -> 0 <= x < sx -> 0 <= y < sy -> 0 <= z < sz ->
  In (chunk_of (sx, sy, sz) (cx, cy, cz) x y z) (vgrid (sx, sy, sz) (cx, cy, cz)).
Proof.
  intros (Hcx & Hcy & Hcz) Hx Hy Hz. apply in_vgrid. unfold chunk_of.
  repeat split; apply in_axis_chunk_of; assumption.
Qed.

Lemma axis_chunk_of_contains s c x : 0 < c -> 0 <= x < s ->
  x / c * c <= x < Z.min (x / c * c + c) s.
Proof.
  intros Hc Hx.
  pose proof (Z.div_mod x c ltac:(lia)) as Hd.
  pose proof (Z.mod_pos_bound x c Hc) as Hm.
  remember (x / c) as q. remember (x mod c) as r. lia.
Qed.

(* ---------- the I/O layer ---------- *)
Lemma coords_eqb_refl c : coords_eqb c c = true.
Proof.
  destruct c as [[[[[a1 a2] a3] a4] a5] a6]. unfold coords_eqb.
  rewrite !Z.eqb_refl. reflexivity.
Qed.

Section Convert.
  Variable V : Type.
  Variable f : V -> V.
  Variable vol : Z -> Z -> Z -> Z -> V.
  Variable nch : Z.
  Variable bytes : Type.
  Variable encode : list N -> vchunk V -> outcome bytes.
  Variable decode : list N -> bytes -> triple -> outcome (vchunk V).
  Hypothesis roundtrip : forall k ch b, encode k ch = Ok b -> decode k b (vshape V ch) = Ok ch.
  Hypothesis enc_total : forall k ch, exists b, encode k ch = Ok b.

  Lemma check_valid_single key size cs c :
    valid_for c size cs = Ok true ->
    check_valid [ {| sc_key := key; sc_size := size; sc_chunk_sizes := [cs];
                     sc_voxel_offset := Some (0, 0, 0) |} ] key c = Ok tt.
  Proof.
    intros Hv. unfold check_valid. cbn [find_scale sc_key].
    rewrite key_eqb_refl.
    unfold validate. cbn [sc_voxel_offset sc_size sc_chunk_sizes valid_any].
    rewrite Hv. reflexivity.
  Qed.

  Lemma last_written_writes scales key c : forall l acc,
    (forall c', In c' l -> check_valid scales key c' = Ok tt) ->
    acc = Some (mk_chunk V f vol nch c) \/ In c l ->
    last_written (vchunk V) bytes encode scales
      (map (fun c' => Write (vchunk V) (mk_chunk V f vol nch c') key c') l) key c acc
    = Some (mk_chunk V f vol nch c).
  Proof.
    induction l as [|c' l IH]; intros acc Hval H.
    - destruct H as [H|[]]. exact H.
    - cbn [map last_written].
      unfold write_chunk at 1.
      rewrite (Hval c') by (left; reflexivity). cbn [bind].
      destruct (enc_total key (mk_chunk V f vol nch c')) as [b Eb]. rewrite Eb. cbn [bind].
      rewrite key_eqb_refl. cbn [andb].
      assert (forall c'', In c'' l -> check_valid scales key c'' = Ok tt) as Hval'
        by (intros c'' Hc''; apply Hval; right; exact Hc'').
      destruct (coords_eqb c c') eqn:E.
      + apply coords_eqb_eq in E. subst c'. apply IH; [exact Hval'|]. left; reflexivity.
      + apply IH; [exact Hval'|].
        destruct H as [H|[H|H]].
        * left; exact H.
        * subst c'. rewrite coords_eqb_refl in E. discriminate.
        * right; exact H.
  Qed.

  Lemma convert_well_shaped key l :
    Forall (well_shaped (vchunk V) (vshape V))
      (map (fun c' => Write (vchunk V) (mk_chunk V f vol nch c') key c') l).
  Proof.
    apply Forall_forall. intros o Ho. apply in_map_iff in Ho.
    destruct Ho as (c' & <- & _). reflexivity.
  Qed.

  (* ---------- indexing a chunk ---------- *)
  Lemma extract_voxel x0 x1 y0 y1 z0 z1 x y z ch :
    x0 <= x < x1 -> y0 <= y < y1 -> z0 <= z < z1 -> 0 <= ch < nch ->
    voxel_in V (x0, x1, y0, y1, z0, z1) (extract V f vol nch (x0, x1, y0, y1, z0, z1)) x y z ch
    = Some (f (vol x y z ch)).
  Proof.
    intros Hx Hy Hz Hch. unfold voxel_in, extract.
    set (dx := x1 - x0). set (dy := y1 - y0). set (dz := z1 - z0).
    assert (0 < dx) as Hdx by (unfold dx; lia).
    assert (0 < dy) as Hdy by (unfold dy; lia).
    assert (0 < dz) as Hdz by (unfold dz; lia).
    set (gx := fun ch z y => map (fun x => f (vol x y z ch)) (zrange x0 x1)).
    set (gy := fun ch z => flat_map (gx ch z) (zrange y0 y1)).
    set (gz := fun ch => flat_map (gy ch) (zrange z0 z1)).
    assert (forall ch z y, length (gx ch z y) = Z.to_nat dx) as Lx.
    { intros. unfold gx. rewrite map_length, zrange_length. reflexivity. }
    assert (forall ch z, length (gy ch z) = Z.to_nat (dy * dx)) as Ly.
    { intros. unfold gy. rewrite (length_flat_map_uniform _ _ (Z.to_nat dx)) by (intros; apply Lx).
      rewrite zrange_length. fold dy. symmetry. apply Z2Nat.inj_mul; lia. }
    assert (forall ch, length (gz ch) = Z.to_nat (dz * (dy * dx))) as Lz.
    { intros. unfold gz. rewrite (length_flat_map_uniform _ _ (Z.to_nat (dy * dx))) by (intros; apply Ly).
      rewrite zrange_length. fold dz. symmetry. apply Z2Nat.inj_mul; nia. }
    change (nth_error (flat_map gz (zrange 0 nch))
              (Z.to_nat (((ch * dz + (z - z0)) * dy + (y - y0)) * dx + (x - x0)))
            = Some (f (vol x y z ch))).
    assert (0 <= (y - y0) * dx + (x - x0) < dy * dx) as By by nia.
    assert (0 <= (z - z0) * (dy * dx) + ((y - y0) * dx + (x - x0)) < dz * (dy * dx)) as Bz by nia.
    replace (((ch * dz + (z - z0)) * dy + (y - y0)) * dx + (x - x0))
      with ((ch - 0) * (dz * (dy * dx)) + ((z - z0) * (dy * dx) + ((y - y0) * dx + (x - x0)))) by ring.
    rewrite (nth_error_flat_map_zrange gz 0 nch) by (auto; lia).
    unfold gz.
    rewrite (nth_error_flat_map_zrange (gy ch) z0 z1) by (auto; lia).
    unfold gy.
    rewrite (nth_error_flat_map_zrange (gx ch z) y0 y1) by (auto; lia).
    unfold gx.
    apply (nth_error_map_zrange (fun x => f (vol x y z ch))). exact Hx.
  Qed.

  Lemma convert_pointwise_aux :
    forall key sx sy sz cx cy cz,
    0 < nch -> pos_triple (sx, sy, sz) -> pos_triple (cx, cy, cz) ->
    let s := {| sc_key := key; sc_size := (sx, sy, sz); sc_chunk_sizes := [(cx, cy, cz)];
                sc_voxel_offset := Some (0, 0, 0) |} in
    let st := fst (run (vchunk V) bytes encode decode [s] []
                       (convert_ops V f vol nch key (sx, sy, sz) (cx, cy, cz))) in
    forall x y z ch,
    0 <= x < sx -> 0 <= y < sy -> 0 <= z < sz -> 0 <= ch < nch ->
    let c := chunk_of (sx, sy, sz) (cx, cy, cz) x y z in
    exists data,
      read_chunk (vchunk V) bytes decode [s] st key c = Ok (extents c, data) /\
      voxel_in V c data x y z ch = Some (f (vol x y z ch)).
  Proof.
    intros key sx sy sz cx cy cz Hn Hs Hc s st x y z ch Hx Hy Hz Hch c.
    exists (extract V f vol nch c). split.
    - assert (forall c', In c' (vgrid (sx, sy, sz) (cx, cy, cz)) ->
                check_valid [s] key c' = Ok tt) as Hval.
      { intros c' Hc'. apply check_valid_single. apply vgrid_valid; assumption. }
      assert (In c (vgrid (sx, sy, sz) (cx, cy, cz))) as Hin
        by (apply chunk_of_in_vgrid; assumption).
      unfold st, convert_ops.
      rewrite (io_refinement (vchunk V) bytes encode decode (vshape V) roundtrip [s] _ key c
                 (convert_well_shaped key _) (Hval c Hin)).
      rewrite (last_written_writes [s] key c _ None Hval (or_intror Hin)).
      reflexivity.
    - destruct Hc as (Hcx & Hcy & Hcz).
      unfold c, chunk_of.
      apply extract_voxel; try assumption; apply axis_chunk_of_contains; assumption.
  Qed.
End Convert.

Lemma convert_pointwise :
  forall (V : Type) (f : V -> V) (vol : Z -> Z -> Z -> Z -> V) (nch : Z) (bytes : Type)
         (encode : list N -> vchunk V -> outcome bytes)
         (decode : list N -> bytes -> triple -> outcome (vchunk V)),
  (forall k ch b, encode k ch = Ok b -> decode k b (vshape V ch) = Ok ch) ->
  (forall k ch, exists b, encode k ch = Ok b) ->
  forall key size cs,
  0 < nch -> pos_triple size -> pos_triple cs ->
  let s := {| sc_key := key; sc_size := size; sc_chunk_sizes := [cs];
              sc_voxel_offset := Some (0, 0, 0) |} in
  let st := fst (run (vchunk V) bytes encode decode [s] []
                     (convert_ops V f vol nch key size cs)) in
  forall x y z ch,
  let '(sx, sy, sz) := size in
  0 <= x < sx -> 0 <= y < sy -> 0 <= z < sz -> 0 <= ch < nch ->
  let c := chunk_of size cs x y z in
  exists data,
    read_chunk (vchunk V) bytes decode [s] st key c = Ok (extents c, data) /\
    voxel_in V c data x y z ch = Some (f (vol x y z ch)).
Proof.
  intros V f vol nch bytes encode decode Hrt Htot key size cs.
  destruct size as [[sx sy] sz], cs as [[cx cy] cz].
  intros Hn Hs Hc s st x y z ch Hx Hy Hz Hch c.
  exact (convert_pointwise_aux V f vol nch bytes encode decode Hrt Htot key
           sx sy sz cx cy cz Hn Hs Hc x y z ch Hx Hy Hz Hch).
Qed.

(* non-vacuity: a 5x3x2 volume with 2 channels, chunks 2x2x4 (not dividing,
   one axis larger than the volume) *)
Example vgrid_example :
  pos_triple (5, 3, 2) /\ pos_triple (2, 2, 4) /\
  length (vgrid (5, 3, 2) (2, 2, 4)) = 6%nat /\
  chunk_of (5, 3, 2) (2, 2, 4) 4 2 1 = (4, 5, 2, 3, 0, 2) /\
  In (4, 5, 2, 3, 0, 2) (vgrid (5, 3, 2) (2, 2, 4)).
Proof. vm_compute. repeat split; try lia. tauto. Qed.
