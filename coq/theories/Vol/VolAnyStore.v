(* C01 into a destination that is not empty: whatever chunks the destination
   held before (an older generation of the dataset, another volume), after the
   conversion loop every voxel reads as the converted input value. *)
From Coq Require Import NArith ZArith List Bool Lia.
From NGS Require Import Val Ints PioModel PioProofs PioAnyStore VolModel VolProofs.
Import ListNotations.
Open Scope Z_scope.

Lemma convert_into_populated :
  forall (V : Type) (f : V -> V) (vol : Z -> Z -> Z -> Z -> V) (nch : Z) (bytes : Type)
         (encode : list N -> vchunk V -> outcome bytes)
         (decode : list N -> bytes -> triple -> outcome (vchunk V)),
  (forall k ch b, encode k ch = Ok b -> decode k b (vshape V ch) = Ok ch) ->
  (forall k ch, exists b, encode k ch = Ok b) ->
  forall (st0 : store bytes) key sx sy sz cx cy cz,
  0 < nch -> pos_triple (sx, sy, sz) -> pos_triple (cx, cy, cz) ->
  let s := {| sc_key := key; sc_size := (sx, sy, sz); sc_chunk_sizes := [(cx, cy, cz)];
              sc_voxel_offset := Some (0, 0, 0) |} in
  let st := fst (run (vchunk V) bytes encode decode [s] st0
                     (convert_ops V f vol nch key (sx, sy, sz) (cx, cy, cz))) in
  forall x y z ch,
  0 <= x < sx -> 0 <= y < sy -> 0 <= z < sz -> 0 <= ch < nch ->
  let c := chunk_of (sx, sy, sz) (cx, cy, cz) x y z in
  exists data,
    read_chunk (vchunk V) bytes decode [s] st key c = Ok (extents c, data) /\
    voxel_in V c data x y z ch = Some (f (vol x y z ch)).
Proof.
  intros V f vol nch bytes encode decode Hrt Htot st0 key sx sy sz cx cy cz Hn Hs Hc s st
         x y z ch Hx Hy Hz Hch c.
  exists (extract V f vol nch c). split.
  - assert (forall c', In c' (vgrid (sx, sy, sz) (cx, cy, cz)) ->
              check_valid [s] key c' = Ok tt) as Hval.
    { intros c' Hc'. apply check_valid_single. apply vgrid_valid; assumption. }
    assert (In c (vgrid (sx, sy, sz) (cx, cy, cz))) as Hin
      by (apply chunk_of_in_vgrid; assumption).
    unfold st, convert_ops.
    rewrite (io_refinement_any_store (vchunk V) bytes encode decode (vshape V) Hrt [s] st0 _ key c
               (convert_well_shaped V f vol nch key _) (Hval c Hin)).
    rewrite (last_written_writes V f vol nch bytes encode Htot [s] key c _ None Hval (or_intror Hin)).
    reflexivity.
  - destruct Hc as (Hcx & Hcy & Hcz).
    unfold c, chunk_of.
    apply extract_voxel; try assumption; apply axis_chunk_of_contains; assumption.
Qed.
