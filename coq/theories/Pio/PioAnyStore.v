(* The I/O refinement of PioProofs from ANY initial store: a destination that
   already holds chunks (an older conversion, another generation of the
   dataset).  A read after a sequence of operations returns the last chunk the
   sequence wrote at that position, and falls back to what the initial store
   held only where the sequence wrote nothing. *)
From Coq Require Import NArith ZArith List Bool Lia.
From NGS Require Import Val Ints PioModel PioProofs.
Import ListNotations.
Open Scope Z_scope.

Section AnyStore.
  Variables chunk bytes : Type.
  Variable encode : list N -> chunk -> outcome bytes.
  Variable decode : list N -> bytes -> triple -> outcome chunk.
  Variable shape_of : chunk -> triple.
  Hypothesis roundtrip : forall k ch b,
    encode k ch = Ok b -> decode k b (shape_of ch) = Ok ch.

  Notation run := (run chunk bytes encode decode).
  Notation last_written := (last_written chunk bytes encode).
  Notation well_shaped := (well_shaped chunk shape_of).

  (* what is known about position (k, c) when the sequence so far wrote acc there *)
  Definition holds (st : store bytes) (k : list N) (c : coords) (acc : option chunk) : Prop :=
    match acc with
    | None => True
    | Some ch => exists b, lookup bytes st k c = Some b /\ encode k ch = Ok b /\ shape_of ch = extents c
    end.

  Lemma last_written_some scales : forall ops k c x,
    last_written scales ops k c (Some x) <> None.
  Proof.
    induction ops as [|o r IH]; intros k c x; cbn [PioModel.last_written]; [discriminate|].
    destruct o as [ch k' c'|k' c']; [|apply IH].
    destruct (write_chunk chunk bytes encode scales [] ch k' c'); try apply IH.
    destruct (key_eqb k k' && coords_eqb c c'); apply IH.
  Qed.

  Lemma run_from scales k c : forall ops st acc,
    Forall well_shaped ops -> holds st k c acc ->
    holds (fst (run scales st ops)) k c (last_written scales ops k c acc) /\
    (last_written scales ops k c acc = None ->
     lookup bytes (fst (run scales st ops)) k c = lookup bytes st k c).
  Proof.
    induction ops as [|o r IH]; intros st acc HF Hh.
    - cbn. split; [exact Hh|reflexivity].
    - inversion HF as [|? ? Hw Hr]; subst.
      destruct o as [ch k' c'|k' c'].
      + cbn [PioModel.run PioModel.last_written].
        destruct (write_chunk chunk bytes encode scales st ch k' c') as [st'| | | | | |cr] eqn:Ew.
        1: { assert (exists s, write_chunk chunk bytes encode scales [] ch k' c' = Ok s) as [s0 Es0].
             { apply (write_store_indep chunk bytes encode scales st []). eexists; exact Ew. }
             rewrite Es0.
             assert (exists b, st' = (k', c', b) :: st /\ encode k' ch = Ok b) as (b & -> & Hb).
             { unfold write_chunk in Ew.
               destruct (check_valid scales k' c'); cbn [bind] in Ew; try discriminate.
               destruct (encode k' ch) as [b| | | | | |cr]; cbn [bind] in Ew; try discriminate.
               injection Ew as <-. exists b. split; reflexivity. }
             destruct (run scales ((k', c', b) :: st) r) as [s2 out] eqn:Er. cbn [fst].
             destruct (key_eqb k k' && coords_eqb c c') eqn:Em.
             - apply andb_true_iff in Em. destruct Em as [E1 E2].
               apply (key_eqb_eq) in E1. apply (coords_eqb_eq) in E2. subst k' c'.
               assert (holds ((k, c, b) :: st) k c (Some ch)) as Hh'.
               { exists b. cbn [lookup]. rewrite key_eqb_refl.
                 assert (coords_eqb c c = true) as -> by (destruct c as [[[[[? ?] ?] ?] ?] ?]; unfold coords_eqb; rewrite !Z.eqb_refl; reflexivity).
                 cbn [andb]. repeat split; [exact Hb|exact Hw]. }
               destruct (IH ((k, c, b) :: st) (Some ch) Hr Hh') as [I1 I2].
               rewrite Er in I1, I2. cbn [fst] in I1, I2.
               split; [exact I1|]. intros Hn. exfalso. exact (last_written_some scales r k c ch Hn).
             - assert (holds ((k', c', b) :: st) k c acc) as Hh'.
               { destruct acc as [x|]; [|exact I].
                 destruct Hh as (b0 & Hl & He & Hs). exists b0. cbn [lookup]. rewrite Em. auto. }
               destruct (IH ((k', c', b) :: st) acc Hr Hh') as [I1 I2].
               rewrite Er in I1, I2. cbn [fst] in I1, I2.
               split; [exact I1|]. intros Hn. rewrite (I2 Hn). cbn [lookup]. rewrite Em. reflexivity. }
        all: assert (write_chunk chunk bytes encode scales [] ch k' c' <> Ok []) as Hne
             by (unfold write_chunk in *; destruct (check_valid scales k' c'); cbn [bind] in *; try discriminate;
                 destruct (encode k' ch); cbn [bind] in *; discriminate).
        all: destruct (write_chunk chunk bytes encode scales [] ch k' c') as [s0| | | | | |cr0] eqn:E0;
             [exfalso;
              assert (exists s, write_chunk chunk bytes encode scales st ch k' c' = Ok s) as [s1 Es1]
                by (apply (write_store_indep chunk bytes encode scales [] st); eexists; exact E0);
              rewrite Ew in Es1; discriminate|..].
        all: destruct (run scales st r) as [s2 out] eqn:Er; cbn [fst];
             destruct (IH st acc Hr Hh) as [I1 I2]; rewrite Er in I1, I2; cbn [fst] in I1, I2;
             split; assumption.
      + cbn [PioModel.run PioModel.last_written].
        destruct (run scales st r) as [s2 out] eqn:Er. cbn [fst].
        destruct (IH st acc Hr Hh) as [I1 I2]. rewrite Er in I1, I2. cbn [fst] in I1, I2.
        split; assumption.
  Qed.

  Theorem io_refinement_any_store : forall scales st0 ops k c,
    Forall well_shaped ops ->
    check_valid scales k c = Ok tt ->
    read_chunk chunk bytes decode scales (fst (run scales st0 ops)) k c
    = match last_written scales ops k c None with
      | Some ch => Ok ch
      | None => read_chunk chunk bytes decode scales st0 k c
      end.
  Proof.
    intros scales st0 ops k c HF Hv.
    destruct (run_from scales k c ops st0 None HF I) as [H1 H2].
    unfold read_chunk. rewrite Hv. cbn [bind].
    destruct (last_written scales ops k c None) as [ch|] eqn:El.
    - destruct H1 as (b & Hl & He & Hs). rewrite Hl.
      rewrite <- Hs. apply roundtrip. exact He.
    - rewrite (H2 eq_refl). reflexivity.
  Qed.
End AnyStore.

(* repeating a whole sequence of operations on its own output changes nothing
   that a reader can see, whatever the store held before the first run *)
Lemma last_written_app_any (chunk bytes : Type) (encode : list N -> chunk -> outcome bytes) scales :
  forall l1 l2 k c acc,
  last_written chunk bytes encode scales (l1 ++ l2) k c acc
  = last_written chunk bytes encode scales l2 k c (last_written chunk bytes encode scales l1 k c acc).
Proof.
  induction l1 as [|o l1 IH]; intros l2 k c acc; [reflexivity|].
  cbn [app last_written]. destruct o as [ch k' c'|k' c'].
  - destruct (write_chunk chunk bytes encode scales [] ch k' c'); try apply IH.
    destruct (key_eqb k k' && coords_eqb c c'); apply IH.
  - apply IH.
Qed.

Theorem repeat_any_store :
  forall (chunk bytes : Type) (encode : list N -> chunk -> outcome bytes)
         (decode : list N -> bytes -> triple -> outcome chunk) (shape_of : chunk -> triple),
  (forall k ch b, encode k ch = Ok b -> decode k b (shape_of ch) = Ok ch) ->
  forall scales (st0 : store bytes) ops k c,
  Forall (well_shaped chunk shape_of) ops ->
  check_valid scales k c = Ok tt ->
  read_chunk chunk bytes decode scales (fst (run chunk bytes encode decode scales st0 (ops ++ ops))) k c
  = read_chunk chunk bytes decode scales (fst (run chunk bytes encode decode scales st0 ops)) k c.
Proof.
  intros chunk bytes encode decode shape_of Hrt scales st0 ops k c HF Hv.
  assert (Forall (well_shaped chunk shape_of) (ops ++ ops)) as HF2 by (apply Forall_app; split; exact HF).
  rewrite (io_refinement_any_store chunk bytes encode decode shape_of Hrt scales st0 _ k c HF2 Hv).
  rewrite (io_refinement_any_store chunk bytes encode decode shape_of Hrt scales st0 _ k c HF Hv).
  rewrite last_written_app_any.
  destruct (last_written chunk bytes encode scales ops k c None) as [x|] eqn:E.
  - destruct (last_written chunk bytes encode scales ops k c (Some x)) as [y|] eqn:E2.
    + (* the second run either overwrites with its own last write, which is the same as the first run's *)
      assert (y = x) as ->.
      { clear - E E2. revert E E2. generalize (@None chunk). intros a E E2.
        (* last_written is "constant or identity" in its accumulator *)
        revert a x y E E2. induction ops as [|o r IH]; intros a x y E E2.
        - cbn in *. congruence.
        - cbn [last_written] in *. destruct o as [ch k' c'|k' c'].
          + destruct (write_chunk chunk bytes encode scales [] ch k' c').
            * destruct (key_eqb k k' && coords_eqb c c').
              -- (* both runs continue from Some ch *) congruence.
              -- eapply IH; eassumption.
            * eapply IH; eassumption. * eapply IH; eassumption. * eapply IH; eassumption.
            * eapply IH; eassumption. * eapply IH; eassumption. * eapply IH; eassumption.
          + eapply IH; eassumption. }
      reflexivity.
    + exfalso. exact (last_written_some chunk bytes encode scales ops k c x E2).
  - rewrite E. reflexivity.
Qed.
