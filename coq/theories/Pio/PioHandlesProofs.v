(* Proofs about several handles on one dataset (PioHandles.v): as long as no
   initialisation overwrites an existing info, every live handle agrees with
   the stored info, the history is indistinguishable from a single-description
   history of PioModel, and a read through ANY handle returns the last chunk
   written through ANY handle. *)
From Coq Require Import NArith ZArith List Bool Lia.
From NGS Require Import Val Ints PioModel PioProofs PioHandles.
Import ListNotations.
Open Scope Z_scope.

Section HandlesProofs.
  Variable info : Type.
  Variable chunk : Type.
  Variable bytes : Type.
  Variable scales_of : info -> list scale.
  Variable check_info : info -> outcome unit.
  Variable encode : info -> list N -> chunk -> outcome bytes.
  Variable decode : info -> list N -> bytes -> triple -> outcome chunk.
  Variable shape_of : chunk -> triple.

  Notation hstate := (hstate info bytes).
  Notation hstep := (hstep info chunk bytes scales_of check_info encode decode).
  Notation hrun := (hrun info chunk bytes scales_of check_info encode decode).
  Notation new_handle := (new_handle info chunk bytes check_info).
  Notation agree := (agree info bytes).
  Notation proj := (proj info chunk check_info).
  Notation no_overwrite := (no_overwrite info chunk).

  Lemma new_handle_spec (st : hstate) stored i :
    let st' := fst (new_handle st stored i) in
    h_info st' = stored /\ h_chunks st' = h_chunks st /\
    h_handles st' = match check_info i with Ok _ => h_handles st ++ [i] | _ => h_handles st end.
  Proof.
    unfold PioHandles.new_handle. destruct (check_info i); cbn; auto.
  Qed.

  Lemma hstep_agree (st : hstate) o : no_overwrite o -> agree st -> agree (fst (hstep st o)).
  Proof.
    intros Hno Hag. destruct o as [i ow| |h ch k c|h k c]; cbn [PioHandles.hstep].
    - destruct (h_info st) as [j|] eqn:Ei.
      + destruct ow; [contradiction Hno|]. exact Hag.
      + destruct (new_handle_spec st (Some i) i) as (H1 & _ & H3).
        intros x Hx. rewrite H1. rewrite H3 in Hx.
        assert (In x (h_handles st) -> False) as Hnone.
        { intro Hin. apply Hag in Hin. congruence. }
        destruct (check_info i); try (exfalso; exact (Hnone Hx)).
        apply in_app_or in Hx. destruct Hx as [Hx|[Hx|[]]]; [exfalso; exact (Hnone Hx)|congruence].
    - destruct (h_info st) as [i|] eqn:Ei; [|exact Hag].
      destruct (new_handle_spec st (Some i) i) as (H1 & _ & H3).
      intros x Hx. rewrite H1. rewrite H3 in Hx.
      assert (In x (h_handles st) -> Some i = Some x) as Hold.
      { intro Hin. apply Hag in Hin. congruence. }
      destruct (check_info i); try (exact (Hold Hx)).
      apply in_app_or in Hx. destruct Hx as [Hx|[Hx|[]]]; [exact (Hold Hx)|congruence].
    - destruct (nth_error (h_handles st) h) as [i|]; [|exact Hag].
      destruct (write_chunk chunk bytes (encode i) (scales_of i) (h_chunks st) ch k c); exact Hag.
    - destruct (nth_error (h_handles st) h) as [i|]; exact Hag.
  Qed.

  Lemma hrun_cons (st : hstate) o r :
    fst (hrun st (o :: r)) = fst (hrun (fst (hstep st o)) r).
  Proof.
    cbn [PioHandles.hrun]. destruct (hstep st o) as [st1 x]. cbn [fst].
    destruct (hrun st1 r). reflexivity.
  Qed.

  (* invariant for every reachable state *)
  Theorem hrun_agree : forall ops (st : hstate),
    Forall no_overwrite ops -> agree st -> agree (fst (hrun st ops)).
  Proof.
    induction ops as [|o r IH]; intros st HF Hag; [exact Hag|].
    inversion HF as [|? ? Ho Hr]; subst. rewrite hrun_cons.
    apply IH; [exact Hr|]. apply hstep_agree; assumption.
  Qed.

  Lemma hstep_info_stable (st : hstate) o i :
    no_overwrite o -> h_info st = Some i -> h_info (fst (hstep st o)) = Some i.
  Proof.
    intros Hno Hi. destruct o as [j ow| |h ch k c|h k c]; cbn [PioHandles.hstep]; rewrite ?Hi.
    - destruct ow; [contradiction Hno|exact Hi].
    - destruct (new_handle_spec st (Some i) i) as (H1 & _). exact H1.
    - destruct (nth_error (h_handles st) h) as [j|]; [|exact Hi].
      destruct (write_chunk chunk bytes (encode j) (scales_of j) (h_chunks st) ch k c);
        cbn [fst PioHandles.h_info]; first [exact Hi | reflexivity].
    - destruct (nth_error (h_handles st) h) as [j|]; exact Hi.
  Qed.

  Lemma run_cons_write scales enc dec (st : store bytes) ch k c r :
    fst (run chunk bytes enc dec scales st (Write chunk ch k c :: r))
    = fst (run chunk bytes enc dec scales
             (match write_chunk chunk bytes enc scales st ch k c with Ok s' => s' | _ => st end) r).
  Proof.
    cbn [run].
    destruct (write_chunk chunk bytes enc scales st ch k c) as [s'| | | | | |cr];
      match goal with |- context [run chunk bytes enc dec scales ?s r] =>
        destruct (run chunk bytes enc dec scales s r) end; reflexivity.
  Qed.

  Lemma run_cons_read scales enc dec (st : store bytes) k c r :
    fst (run chunk bytes enc dec scales st (Read chunk k c :: r))
    = fst (run chunk bytes enc dec scales st r).
  Proof. cbn [run]. destruct (run chunk bytes enc dec scales st r). reflexivity. Qed.

  (* refinement: the chunk files after the history are those of the
     single-description model run on the projected history *)
  Theorem hrun_refines_run : forall ops (st : hstate) i,
    Forall no_overwrite ops -> agree st -> h_info st = Some i ->
    h_info (fst (hrun st ops)) = Some i /\
    h_chunks (fst (hrun st ops))
    = fst (run chunk bytes (encode i) (decode i) (scales_of i) (h_chunks st)
             (proj i (length (h_handles st)) ops)).
  Proof.
    induction ops as [|o r IH]; intros st i HF Hag Hi; [split; [exact Hi|reflexivity]|].
    inversion HF as [|? ? Ho Hr]; subst. rewrite hrun_cons.
    pose proof (hstep_agree st o Ho Hag) as Hag1.
    pose proof (hstep_info_stable st o i Ho Hi) as Hi1.
    destruct (IH (fst (hstep st o)) i Hr Hag1 Hi1) as [IH1 IH2].
    split; [exact IH1|]. rewrite IH2. clear IH IH1 IH2 Hag1 Hi1.
    destruct o as [j ow| |h ch k c|h k c]; cbn [PioHandles.hstep PioHandles.proj]; rewrite ?Hi.
    - destruct ow; [contradiction Ho|]. reflexivity.
    - destruct (new_handle_spec st (Some i) i) as (_ & H2 & H3). rewrite H2, H3.
      destruct (check_info i); rewrite ?app_length; cbn [length]; rewrite ?Nat.add_1_r; reflexivity.
    - destruct (nth_error (h_handles st) h) as [j|] eqn:En.
      + assert (h < length (h_handles st))%nat as Hlt by (apply nth_error_Some; congruence).
        apply Nat.ltb_lt in Hlt. rewrite Hlt.
        assert (j = i) as -> by (apply nth_error_In in En; apply Hag in En; congruence).
        rewrite run_cons_write.
        destruct (write_chunk chunk bytes (encode i) (scales_of i) (h_chunks st) ch k c); reflexivity.
      + apply nth_error_None in En. apply Nat.ltb_ge in En. rewrite En. reflexivity.
    - destruct (nth_error (h_handles st) h) as [j|] eqn:En.
      + assert (h < length (h_handles st))%nat as Hlt by (apply nth_error_Some; congruence).
        apply Nat.ltb_lt in Hlt. rewrite Hlt. rewrite run_cons_read. reflexivity.
      + apply nth_error_None in En. apply Nat.ltb_ge in En. rewrite En. reflexivity.
  Qed.

  Definition hwell_shaped (o : hop info chunk) : Prop :=
    match o with HWrite _ _ _ ch _ c => shape_of ch = extents c | _ => True end.

  Lemma proj_well_shaped i : forall ops n,
    Forall hwell_shaped ops -> Forall (well_shaped chunk shape_of) (proj i n ops).
  Proof.
    induction ops as [|o r IH]; intros n HF; [constructor|].
    inversion HF as [|? ? Ho Hr]; subst.
    destruct o as [j ow| |h ch k c|h k c]; cbn [PioHandles.proj].
    - apply IH; exact Hr.
    - apply IH; exact Hr.
    - destruct (Nat.ltb h n); [constructor; [exact Ho|]|]; apply IH; exact Hr.
    - destruct (Nat.ltb h n); [constructor; [exact I|]|]; apply IH; exact Hr.
  Qed.

  (* the property across handles: starting from an initialised, still empty
     dataset, after ANY history without overwriting initialisations, a read of
     a valid position through ANY live handle returns the chunk of the last
     successful write to that (scale, position) through ANY handle *)
  Theorem handles_read_last_written : forall ops (st : hstate) i h j k c,
    (forall k ch b, encode i k ch = Ok b -> decode i k b (shape_of ch) = Ok ch) ->
    Forall no_overwrite ops -> Forall hwell_shaped ops ->
    agree st -> h_info st = Some i -> h_chunks st = [] ->
    nth_error (h_handles (fst (hrun st ops))) h = Some j ->
    check_valid (scales_of i) k c = Ok tt ->
    read_chunk chunk bytes (decode j) (scales_of j) (h_chunks (fst (hrun st ops))) k c
    = match last_written chunk bytes (encode i) (scales_of i)
              (proj i (length (h_handles st)) ops) k c None with
      | Some ch => Ok ch
      | None => AccessErr
      end.
  Proof.
    intros ops st i h j k c Hrt Hno Hws Hag Hi Hempty Hn Hv.
    destruct (hrun_refines_run ops st i Hno Hag Hi) as [Hinfo Hchunks].
    pose proof (hrun_agree ops st Hno Hag) as Hag'.
    assert (j = i) as -> by (apply nth_error_In in Hn; apply Hag' in Hn; congruence).
    rewrite Hchunks, Hempty.
    apply (io_refinement chunk bytes (encode i) (decode i) shape_of (Hrt)).
    - apply proj_well_shaped; exact Hws.
    - exact Hv.
  Qed.
End HandlesProofs.

(* the hypothesis is needed: an overwriting initialisation leaves the older
   handle with a description that is no longer the dataset's *)
Example overwrite_breaks_agreement :
  let st := fst (hrun nat nat nat (fun _ => []) (fun _ => Ok tt) (fun _ _ x => Ok x) (fun _ _ x _ => Ok x)
                   (h_empty nat nat) [HNew nat nat 1%nat false; HNew nat nat 2%nat true]) in
  h_info st = Some 2%nat /\ h_handles st = [1%nat; 2%nat] /\ ~ agree nat nat st.
Proof.
  cbn. repeat split. intro H. specialize (H 1%nat (or_introl eq_refl)). discriminate H.
Qed.

(* and a second initialisation WITHOUT overwrite is refused and changes nothing *)
Example second_init_refused :
  hrun nat nat nat (fun _ => []) (fun _ => Ok tt) (fun _ _ x => Ok x) (fun _ _ x _ => Ok x)
       (h_empty nat nat) [HNew nat nat 1%nat false; HNew nat nat 2%nat false]
  = ({| h_info := Some 1%nat; h_chunks := []; h_handles := [1%nat] |}, [Ok None; AccessErr]).
Proof. reflexivity. Qed.

(* the same across handles from ANY initial chunk store (a dataset that already
   holds chunks when the history starts) *)
From NGS Require Import PioAnyStore.
Theorem handles_read_any_store :
  forall (info chunk bytes : Type) (scales_of : info -> list scale) (check_info : info -> outcome unit)
         (encode : info -> list N -> chunk -> outcome bytes)
         (decode : info -> list N -> bytes -> triple -> outcome chunk) (shape_of : chunk -> triple)
         ops (st : hstate info bytes) i h j k c,
  (forall k ch b, encode i k ch = Ok b -> decode i k b (shape_of ch) = Ok ch) ->
  Forall (no_overwrite info chunk) ops -> Forall (hwell_shaped info chunk shape_of) ops ->
  agree info bytes st -> h_info st = Some i ->
  nth_error (h_handles (fst (hrun info chunk bytes scales_of check_info encode decode st ops))) h = Some j ->
  check_valid (scales_of i) k c = Ok tt ->
  read_chunk chunk bytes (decode j) (scales_of j)
    (h_chunks (fst (hrun info chunk bytes scales_of check_info encode decode st ops))) k c
  = match last_written chunk bytes (encode i) (scales_of i)
            (proj info chunk check_info i (length (h_handles st)) ops) k c None with
    | Some ch => Ok ch
    | None => read_chunk chunk bytes (decode i) (scales_of i) (h_chunks st) k c
    end.
Proof.
  intros info chunk bytes scales_of check_info encode decode shape_of ops st i h j k c
         Hrt Hno Hws Hag Hi Hn Hv.
  destruct (hrun_refines_run info chunk bytes scales_of check_info encode decode ops st i Hno Hag Hi)
    as [Hinfo Hchunks].
  pose proof (hrun_agree info chunk bytes scales_of check_info encode decode ops st Hno Hag) as Hag'.
  assert (j = i) as -> by (apply nth_error_In in Hn; apply Hag' in Hn; congruence).
  rewrite Hchunks.
  apply (io_refinement_any_store chunk bytes (encode i) (decode i) shape_of Hrt).
  - apply proj_well_shaped; exact Hws.
  - exact Hv.
Qed.
