From Coq Require Import NArith ZArith List Bool Lia.
From NGS Require Import Val Ints PioModel.
Import ListNotations.
Open Scope Z_scope.

Lemma axis_ok_spec mn mx cs s : 0 < cs -> 0 <= mn -> mn < s ->
  exists b, axis_ok mn mx cs s = Ok b /\ (b = true <-> on_grid_axis mn mx cs s).
Proof.
  intros Hcs Hmn Hs. unfold axis_ok.
  destruct (cs =? 0) eqn:E; [lia|].
  eexists; split; [reflexivity|].
  rewrite andb_true_iff, !Z.eqb_eq. unfold on_grid_axis. split.
  - intros [Hm Hx]. exists (mn / cs). split; [apply Z.div_pos; lia|].
    split; [|split; assumption].
    rewrite (Z.div_mod mn cs) at 1 by lia. lia.
  - intros (i & Hi & Hmn' & _ & Hmx). split; [|assumption].
    subst mn. apply Z.mod_mul. lia.
Qed.

Lemma on_grid_axis_bounds mn mx cs s : 0 < cs -> on_grid_axis mn mx cs s -> 0 <= mn /\ mn < s.
Proof. intros Hcs (i & Hi & -> & Hs & _). split; [nia|assumption]. Qed.

Lemma valid_for_spec c size cs : pos_triple cs ->
  exists b, valid_for c size cs = Ok b /\
   (b = true <->
    let '(xmin, xmax, ymin, ymax, zmin, zmax) := c in
    let '(xs, ys, zs) := size in let '(xcs, ycs, zcs) := cs in
    on_grid_axis xmin xmax xcs xs /\ on_grid_axis ymin ymax ycs ys /\ on_grid_axis zmin zmax zcs zs).
Proof.
  destruct c as [[[[[xmin xmax] ymin] ymax] zmin] zmax].
  destruct size as [[xs ys] zs]. destruct cs as [[xcs ycs] zcs].
  intros (Hx & Hy & Hz). unfold valid_for.
  destruct ((0 <=? xmin) && (xmin <? xs) && (0 <=? ymin) && (ymin <? ys)
            && (0 <=? zmin) && (zmin <? zs)) eqn:B; cbn [negb].
  - rewrite !andb_true_iff in B. destruct B as [[[[[B1 B2] B3] B4] B5] B6].
    apply Z.leb_le in B1, B3, B5. apply Z.ltb_lt in B2, B4, B6.
    destruct (axis_ok_spec xmin xmax xcs xs Hx B1 B2) as (bx & Ex & Sx).
    destruct (axis_ok_spec ymin ymax ycs ys Hy B3 B4) as (b_y & Ey & Sy).
    destruct (axis_ok_spec zmin zmax zcs zs Hz B5 B6) as (bz & Ez & Sz).
    rewrite Ex. cbn [bind]. destruct bx; cbn [negb].
    + rewrite Ey. cbn [bind]. destruct b_y; cbn [negb].
      * rewrite Ez. exists bz. split; [reflexivity|]. tauto.
      * exists false. split; [reflexivity|]. split; [discriminate|].
        intros (_ & H & _). apply Sy in H. discriminate.
    + exists false. split; [reflexivity|]. split; [discriminate|].
      intros (H & _). apply Sx in H. discriminate.
  - exists false. split; [reflexivity|]. split; [discriminate|].
    intros (Gx & Gy & Gz).
    apply on_grid_axis_bounds in Gx, Gy, Gz; try assumption.
    assert (((0 <=? xmin) && (xmin <? xs) && (0 <=? ymin) && (ymin <? ys)
            && (0 <=? zmin) && (zmin <? zs)) = true) as B'.
    { rewrite !andb_true_iff, !Z.leb_le, !Z.ltb_lt. tauto. }
    congruence.
Qed.

Lemma valid_any_spec c size l : Forall pos_triple l ->
  exists b, valid_any c size l = Ok b /\
   (b = true <-> exists cs, In cs l /\
      let '(xmin, xmax, ymin, ymax, zmin, zmax) := c in
      let '(xs, ys, zs) := size in let '(xcs, ycs, zcs) := cs in
      on_grid_axis xmin xmax xcs xs /\ on_grid_axis ymin ymax ycs ys /\ on_grid_axis zmin zmax zcs zs).
Proof.
  induction l as [|cs r IH]; intros HF.
  - exists false. split; [reflexivity|]. split; [discriminate|]. intros (cs & [] & _).
  - inversion HF as [|? ? Hc Hr]; subst.
    destruct (valid_for_spec c size cs Hc) as (b & E & S).
    cbn [valid_any]. rewrite E. cbn [bind]. destruct b.
    + exists true. split; [reflexivity|]. split; [|reflexivity].
      intros _. exists cs. split; [left; reflexivity|]. apply S. reflexivity.
    + destruct (IH Hr) as (b' & E' & S'). exists b'. split; [assumption|].
      rewrite S'. split.
      * intros (cs' & Hin & H). exists cs'. split; [right; assumption|assumption].
      * intros (cs' & [<-|Hin] & H).
        -- apply S in H. discriminate.
        -- exists cs'. split; assumption.
Qed.

Theorem validate_iff : forall s c,
  sc_voxel_offset s = Some (0, 0, 0) -> Forall pos_triple (sc_chunk_sizes s) ->
  (validate s c = Ok true <-> on_grid s c) /\
  (validate s c = Ok true \/ validate s c = Ok false).
Proof.
  intros s c Hvo HF. unfold validate. rewrite Hvo.
  destruct (valid_any_spec c (sc_size s) (sc_chunk_sizes s) HF) as (b & E & S).
  rewrite E. unfold on_grid.
  destruct c as [[[[[xmin xmax] ymin] ymax] zmin] zmax].
  destruct (sc_size s) as [[xs ys] zs] eqn:Esz.
  split.
  - split.
    + intros H. injection H as ->. apply S. reflexivity.
    + intros H. f_equal. apply S. exact H.
  - destruct b; auto.
Qed.

Theorem offgrid_rejected : forall (chunk bytes : Type) enc dec scales (st : store bytes) (ch : chunk) k c s,
  find_scale scales k = Some s ->
  sc_voxel_offset s = Some (0, 0, 0) -> Forall pos_triple (sc_chunk_sizes s) ->
  ~ on_grid s c ->
  write_chunk chunk bytes enc scales st ch k c = Crash AssertionError /\
  read_chunk chunk bytes dec scales st k c = Crash AssertionError.
Proof.
  intros chunk bytes enc dec scales st ch k c s Hf Hvo HF Hn.
  destruct (validate_iff s c Hvo HF) as [Hiff [Ht|Hfalse]].
  - exfalso. apply Hn, Hiff, Ht.
  - unfold write_chunk, read_chunk, check_valid. rewrite Hf, Hfalse. split; reflexivity.
Qed.

Section Refinement.
  Variables chunk bytes : Type.
  Variable encode : list N -> chunk -> outcome bytes.
  Variable decode : list N -> bytes -> triple -> outcome chunk.
  Variable shape_of : chunk -> triple.
  Hypothesis roundtrip : forall k ch b,
    encode k ch = Ok b -> decode k b (shape_of ch) = Ok ch.

  Definition well_shaped (o : op chunk) : Prop :=
    match o with Write _ ch _ c => shape_of ch = extents c | Read _ _ _ => True end.

  Definition agrees (st : store bytes) (k : list N) (c : coords) (acc : option chunk) : Prop :=
    match acc with
    | None => lookup bytes st k c = None
    | Some ch => exists b, lookup bytes st k c = Some b /\ encode k ch = Ok b /\ shape_of ch = extents c
    end.

  Lemma key_eqb_refl k : key_eqb k k = true.
  Proof. unfold key_eqb. destruct (list_eq_dec N.eq_dec k k); congruence. Qed.
  Lemma key_eqb_eq a b : key_eqb a b = true -> a = b.
  Proof. unfold key_eqb. destruct (list_eq_dec N.eq_dec a b); congruence. Qed.
  Lemma coords_eqb_eq a b : coords_eqb a b = true -> a = b.
  Proof.
    destruct a as [[[[[a1 a2] a3] a4] a5] a6], b as [[[[[b1 b2] b3] b4] b5] b6].
    unfold coords_eqb. rewrite !andb_true_iff, !Z.eqb_eq.
    intros [[[[[-> ->] ->] ->] ->] ->]. reflexivity.
  Qed.

  Lemma write_store_indep scales st st' ch k c :
    (exists s, write_chunk chunk bytes encode scales st ch k c = Ok s) <->
    (exists s, write_chunk chunk bytes encode scales st' ch k c = Ok s).
  Proof.
    unfold write_chunk. destruct (check_valid scales k c); cbn [bind];
      try (split; intros [s H]; discriminate).
    destruct (encode k ch); cbn [bind];
      try (split; intros [s H]; discriminate).
    split; intros _; eexists; reflexivity.
  Qed.

  Lemma run_refines scales : forall ops st k c acc,
    Forall well_shaped ops -> agrees st k c acc ->
    agrees (fst (run chunk bytes encode decode scales st ops)) k c
           (last_written chunk bytes encode scales ops k c acc).
  Proof.
    induction ops as [|o r IH]; intros st k c acc HF Hag; [exact Hag|].
    inversion HF as [|? ? Hw Hr]; subst.
    destruct o as [ch k' c'|k' c'].
    - cbn [run last_written].
      destruct (write_chunk chunk bytes encode scales st ch k' c') as [st'| | | | | |cr] eqn:Ew.
      1: { assert (exists s, write_chunk chunk bytes encode scales [] ch k' c' = Ok s) as [s0 Es0].
        { apply (write_store_indep scales st []). eexists; exact Ew. }
        rewrite Es0.
        destruct (run chunk bytes encode decode scales st' r) as [s2 out] eqn:Er.
        cbn [fst].
        replace s2 with (fst (run chunk bytes encode decode scales st' r)) by (rewrite Er; reflexivity).
        unfold write_chunk in Ew.
        destruct (check_valid scales k' c'); cbn [bind] in Ew; try discriminate.
        destruct (encode k' ch) as [b| | | | | |] eqn:Ee; cbn [bind] in Ew; try discriminate.
        injection Ew as <-.
        destruct (key_eqb k k' && coords_eqb c c') eqn:Eq.
        * apply IH; [assumption|].
          apply andb_true_iff in Eq. destruct Eq as [E1 E2].
          apply key_eqb_eq in E1. apply coords_eqb_eq in E2. subst k' c'.
          cbn [agrees lookup]. rewrite key_eqb_refl.
          assert (coords_eqb c c = true) as ->.
          { destruct c as [[[[[a1 a2] a3] a4] a5] a6]. unfold coords_eqb. rewrite !Z.eqb_refl. reflexivity. }
          exists b. repeat split; assumption.
        * apply IH; [assumption|].
          destruct acc as [ch0|]; cbn [agrees lookup] in *; rewrite Eq; exact Hag. }
      all: destruct (run chunk bytes encode decode scales st r) as [s2 out] eqn:Er; cbn [fst].
      all: replace s2 with (fst (run chunk bytes encode decode scales st r)) by (rewrite Er; reflexivity).
      all: assert (forall s, write_chunk chunk bytes encode scales [] ch k' c' <> Ok s) as Hno
            by (intros s Hs; destruct (proj2 (write_store_indep scales st [] ch k' c') (ex_intro _ s Hs)) as [s' Hs'];
                rewrite Ew in Hs'; discriminate).
      all: destruct (write_chunk chunk bytes encode scales [] ch k' c') eqn:E0;
             [exfalso; eapply Hno; reflexivity|..]; apply IH; assumption.
    - cbn [run last_written].
      destruct (run chunk bytes encode decode scales st r) as [s2 out] eqn:Er. cbn [fst].
      replace s2 with (fst (run chunk bytes encode decode scales st r)) by (rewrite Er; reflexivity).
      apply IH; assumption.
  Qed.

  Theorem io_refinement : forall scales ops k c,
    Forall well_shaped ops ->
    check_valid scales k c = Ok tt ->
    read_chunk chunk bytes decode scales (fst (run chunk bytes encode decode scales [] ops)) k c
    = match last_written chunk bytes encode scales ops k c None with
      | Some ch => Ok ch
      | None => AccessErr
      end.
  Proof.
    intros scales ops k c HF Hv.
    pose proof (run_refines scales ops [] k c None HF eq_refl) as H.
    unfold read_chunk. rewrite Hv. cbn [bind].
    destruct (last_written chunk bytes encode scales ops k c None) as [ch|]; cbn [agrees] in H.
    - destruct H as (b & Hl & He & Hs). rewrite Hl, <- Hs. apply roundtrip. exact He.
    - rewrite H. reflexivity.
  Qed.
End Refinement.
