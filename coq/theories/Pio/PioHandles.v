(* Several PrecomputedIO handles on one dataset.

   precomputed_io.get_IO_for_new_dataset stores the info file through the
   accessor (store_file(..., overwrite=overwrite_info): an existing file is a
   data-access error unless overwrite is asked for) and THEN builds the
   PrecomputedIO object, whose constructor selects one encoder per scale and
   may raise InvalidInfoError; get_IO_for_existing_dataset fetches the stored
   info and builds the object from it.  Every object keeps the info it was
   built with for its whole life: validation, encoding and decoding go through
   THAT description, the chunk files are shared. *)
From Coq Require Import NArith ZArith List Bool Lia.
From NGS Require Import Val Ints PioModel.
Import ListNotations.
Open Scope Z_scope.

Section Handles.
  Variable info : Type.
  Variable chunk : Type.
  Variable bytes : Type.
  Variable scales_of : info -> list scale.
  Variable check_info : info -> outcome unit.          (* PrecomputedIO.__init__: encoder selection *)
  Variable encode : info -> list N -> chunk -> outcome bytes.
  Variable decode : info -> list N -> bytes -> triple -> outcome chunk.

  Record hstate := {
    h_info : option info;            (* the info file of the dataset *)
    h_chunks : store bytes;          (* the chunk files *)
    h_handles : list info            (* live PrecomputedIO objects, in creation order *)
  }.

  Definition h_empty : hstate := {| h_info := None; h_chunks := []; h_handles := [] |}.

  Inductive hop :=
  | HNew (i : info) (overwrite : bool)
  | HOpen
  | HWrite (h : nat) (ch : chunk) (k : list N) (c : coords)
  | HRead (h : nat) (k : list N) (c : coords).

  (* result of one operation: reads carry the chunk *)
  Definition hres := outcome (option chunk).

  Definition new_handle (st : hstate) (stored : option info) (i : info) : hstate * hres :=
    match check_info i with
    | Ok _ => ({| h_info := stored; h_chunks := h_chunks st; h_handles := h_handles st ++ [i] |}, Ok None)
    | e => ({| h_info := stored; h_chunks := h_chunks st; h_handles := h_handles st |},
            bind e (fun _ => Ok None))
    end.

  Definition hstep (st : hstate) (o : hop) : hstate * hres :=
    match o with
    | HNew i ow =>
        match h_info st with
        | Some _ => if ow then new_handle st (Some i) i else (st, AccessErr)
        | None => new_handle st (Some i) i
        end
    | HOpen =>
        match h_info st with
        | None => (st, AccessErr)
        | Some i => new_handle st (Some i) i
        end
    | HWrite h ch k c =>
        match nth_error (h_handles st) h with
        | None => (st, Crash IndexError)
        | Some i =>
            match write_chunk chunk bytes (encode i) (scales_of i) (h_chunks st) ch k c with
            | Ok s' => ({| h_info := h_info st; h_chunks := s'; h_handles := h_handles st |}, Ok None)
            | e => (st, bind e (fun _ => Ok None))
            end
        end
    | HRead h k c =>
        match nth_error (h_handles st) h with
        | None => (st, Crash IndexError)
        | Some i => (st, bind (read_chunk chunk bytes (decode i) (scales_of i) (h_chunks st) k c)
                              (fun ch => Ok (Some ch)))
        end
    end.

  Fixpoint hrun (st : hstate) (ops : list hop) : hstate * list hres :=
    match ops with
    | [] => (st, [])
    | o :: r => let '(st1, x) := hstep st o in
                let '(st2, xs) := hrun st1 r in (st2, x :: xs)
    end.

  (* ---- specification side ---- *)

  (* every live handle describes the dataset exactly as the stored info does *)
  Definition agree (st : hstate) : Prop :=
    forall i, In i (h_handles st) -> h_info st = Some i.

  Definition no_overwrite (o : hop) : Prop :=
    match o with HNew _ true => False | _ => True end.

  (* the history as seen by the single-description model of PioModel: once the
     dataset carries info i, a write / read through ANY live handle is a write /
     read under i; n = number of live handles *)
  Fixpoint proj (i : info) (n : nat) (ops : list hop) : list (op chunk) :=
    match ops with
    | [] => []
    | HNew _ _ :: r => proj i n r
    | HOpen :: r => proj i (match check_info i with Ok _ => S n | _ => n end) r
    | HWrite h ch k c :: r => if Nat.ltb h n then Write chunk ch k c :: proj i n r else proj i n r
    | HRead h k c :: r => if Nat.ltb h n then Read chunk k c :: proj i n r else proj i n r
    end.
End Handles.

Arguments h_info {info bytes} _.
Arguments h_chunks {info bytes} _.
Arguments h_handles {info bytes} _.
