(* Model of precomputed_io.PrecomputedIO: validate_chunk_coords, get_encoder
   selection, write_chunk / read_chunk over an abstract chunk store, plus the
   specification-side grid predicate. *)
From Coq Require Import NArith ZArith List Bool Lia.
From NGS Require Import Val Ints.
Import ListNotations.
Open Scope Z_scope.

Definition triple := (Z * Z * Z)%type.
Definition coords := (Z * Z * Z * Z * Z * Z)%type.   (* xmin xmax ymin ymax zmin zmax *)

Record scale := {
  sc_key : list N;
  sc_size : triple;
  sc_chunk_sizes : list triple;
  sc_voxel_offset : option triple      (* None: key absent -> KeyError *)
}.

(* one chunk size, Python evaluation order (short-circuit `and`; `%` by zero
   raises only if reached) *)
Definition axis_ok (mn mx cs s : Z) : outcome bool :=
  if cs =? 0 then Crash ZeroDivisionError
  else Ok ((mn mod cs =? 0) && (mx =? Z.min (mn + cs) s)).

Definition valid_for (c : coords) (size cs : triple) : outcome bool :=
  let '(xmin, xmax, ymin, ymax, zmin, zmax) := c in
  let '(xs, ys, zs) := size in let '(xcs, ycs, zcs) := cs in
  if negb ((0 <=? xmin) && (xmin <? xs) && (0 <=? ymin) && (ymin <? ys)
           && (0 <=? zmin) && (zmin <? zs)) then Ok false else
  bind (axis_ok xmin xmax xcs xs) (fun bx => if negb bx then Ok false else
  bind (axis_ok ymin ymax ycs ys) (fun b_y => if negb b_y then Ok false else
  axis_ok zmin zmax zcs zs)).

Fixpoint valid_any (c : coords) (size : triple) (l : list triple) : outcome bool :=
  match l with
  | [] => Ok false
  | cs :: r => bind (valid_for c size cs) (fun b => if b then Ok true else valid_any c size r)
  end.

Definition validate (s : scale) (c : coords) : outcome bool :=
  match sc_voxel_offset s with
  | None => Crash KeyError
  | Some (0, 0, 0) => valid_any c (sc_size s) (sc_chunk_sizes s)
  | Some _ => Crash NotImplementedError
  end.

(* ---- specification: positions on the dataset's chunk grid ---- *)
Definition on_grid_axis (mn mx cs s : Z) : Prop :=
  exists i, 0 <= i /\ mn = i * cs /\ mn < s /\ mx = Z.min (mn + cs) s.
Definition on_grid (s : scale) (c : coords) : Prop :=
  let '(xmin, xmax, ymin, ymax, zmin, zmax) := c in
  let '(xs, ys, zs) := sc_size s in
  exists cs, In cs (sc_chunk_sizes s) /\
    let '(xcs, ycs, zcs) := cs in
    on_grid_axis xmin xmax xcs xs /\ on_grid_axis ymin ymax ycs ys /\ on_grid_axis zmin zmax zcs zs.

Definition pos_triple (t : triple) : Prop := let '(a, b, c) := t in 0 < a /\ 0 < b /\ 0 < c.

(* ---- get_encoder ---- *)
Inductive enc_kind := EncRaw | EncCSeg (bx by_ bz : Z) | EncJpeg.
(* data_type index: 0 uint8, 1 uint16, 2 uint32, 3 uint64, 4 float32, other = invalid;
   num_channels: None = not an int; encoding: 0 raw, 1 compressed_segmentation, 2 jpeg, other invalid;
   has_* flags: key present *)
Definition get_encoder (has_dt has_nc has_enc : bool) (dt : Z) (nc : option Z) (enc : Z)
           (block : option triple) : outcome enc_kind :=
  if negb (has_dt && has_nc && has_enc) then InfoErr else
  match nc with
  | None => InfoErr
  | Some n =>
    if negb (0 <? n) then InfoErr else
    if negb ((0 <=? dt) && (dt <=? 4)) then InfoErr else
    if enc =? 0 then Ok EncRaw
    else if enc =? 1 then
      match block with
      | None => InfoErr
      | Some (bx, b_y, bz) => if (dt =? 2) || (dt =? 3) then Ok (EncCSeg bx b_y bz) else InfoErr
      end
    else if enc =? 2 then
      if (dt =? 0) && ((n =? 1) || (n =? 3)) then Ok EncJpeg else InfoErr
    else InfoErr
  end.

(* ---- the I/O layer over an abstract store ---- *)
Section IO.
  Variable chunk : Type.
  Variable bytes : Type.
  Variable encode : list N (* scale key *) -> chunk -> outcome bytes.
  Variable decode : list N -> bytes -> triple (* X Y Z extents *) -> outcome chunk.

  Definition key_eqb (a b : list N) : bool :=
    if list_eq_dec N.eq_dec a b then true else false.
  Definition coords_eqb (a b : coords) : bool :=
    let '(a1, a2, a3, a4, a5, a6) := a in let '(b1, b2, b3, b4, b5, b6) := b in
    (a1 =? b1) && (a2 =? b2) && (a3 =? b3) && (a4 =? b4) && (a5 =? b5) && (a6 =? b6).

  Definition store := list (list N * coords * bytes).      (* latest first *)

  Fixpoint lookup (st : store) (k : list N) (c : coords) : option bytes :=
    match st with
    | [] => None
    | (k', c', b) :: r => if key_eqb k k' && coords_eqb c c' then Some b else lookup r k c
    end.

  Fixpoint find_scale (scales : list scale) (k : list N) : option scale :=
    (* PrecomputedIO indexes scales by key in a dict: the LAST scale with a key wins *)
    match scales with
    | [] => None
    | s :: r => match find_scale r k with
                | Some s' => Some s'
                | None => if key_eqb k (sc_key s) then Some s else None
                end
    end.

  Definition extents (c : coords) : triple :=
    let '(xmin, xmax, ymin, ymax, zmin, zmax) := c in (xmax - xmin, ymax - ymin, zmax - zmin).

  Definition check_valid (scales : list scale) (k : list N) (c : coords) : outcome unit :=
    match find_scale scales k with
    | None => Crash KeyError
    | Some s => bind (validate s c) (fun b => if b then Ok tt else Crash AssertionError)
    end.

  Definition write_chunk (scales : list scale) (st : store) (ch : chunk) (k : list N) (c : coords)
    : outcome store :=
    bind (check_valid scales k c) (fun _ =>
    bind (encode k ch) (fun b => Ok ((k, c, b) :: st))).

  Definition read_chunk (scales : list scale) (st : store) (k : list N) (c : coords) : outcome chunk :=
    bind (check_valid scales k c) (fun _ =>
    match lookup st k c with
    | None => AccessErr
    | Some b => decode k b (extents c)
    end).

  Inductive op := Write (ch : chunk) (k : list N) (c : coords) | Read (k : list N) (c : coords).

  (* run a sequence; failing operations leave the store unchanged; results of reads are collected *)
  Fixpoint run (scales : list scale) (st : store) (ops : list op) : store * list (outcome (option chunk)) :=
    match ops with
    | [] => (st, [])
    | Write ch k c :: r =>
        match write_chunk scales st ch k c with
        | Ok st' => let '(s2, out) := run scales st' r in (s2, Ok None :: out)
        | e => let '(s2, out) := run scales st r in
               (s2, bind e (fun _ => Ok None) :: out)
        end
    | Read k c :: r =>
        let '(s2, out) := run scales st r in
        (s2, bind (read_chunk scales st k c) (fun ch => Ok (Some ch)) :: out)
    end.

  (* abstract specification: the last chunk written to each (key, position) *)
  Fixpoint last_written (scales : list scale) (ops : list op) (k : list N) (c : coords) (acc : option chunk)
    : option chunk :=
    match ops with
    | [] => acc
    | Write ch k' c' :: r =>
        match write_chunk scales [] ch k' c' with
        | Ok _ => if key_eqb k k' && coords_eqb c c' then last_written scales r k c (Some ch)
                  else last_written scales r k c acc
        | _ => last_written scales r k c acc
        end
    | Read _ _ :: r => last_written scales r k c acc
    end.
End IO.
