(* NumPy uint64 scalar arithmetic, with the wrap written out. *)
From Coq Require Import NArith ZArith List Lia.
Import ListNotations.
Open Scope N_scope.

Definition two64 : N := 2 ^ 64.
Definition max64 : N := two64 - 1.

Definition wrap64 (a : N) : N := a mod two64.
Definition add64 (a b : N) : N := (a + b) mod two64.
Definition mul64 (a b : N) : N := (a * b) mod two64.
(* NumPy 2.x: shifting a uint64 by 64 or more gives 0 (observed; re-checked by
   the correspondence run on every execution). *)
Definition shl64 (a k : N) : N := if 64 <=? k then 0 else (a * 2 ^ k) mod two64.
Definition shr64 (a k : N) : N := if 64 <=? k then 0 else a / 2 ^ k.
Definition not64 (a : N) : N := max64 - a.
Definition and64 (a b : N) : N := N.land a b.
Definition or64 (a b : N) : N := N.lor a b.
(* 2 ** np.uint64(k) in uint64 arithmetic *)
Definition pow2_64 (k : N) : N := if 64 <=? k then 0 else 2 ^ k.

Definition ceil_div (a b : Z) : Z := ((a - 1) / b + 1)%Z.   (* utils.ceil_div, Python floor division *)
Definition nceil_div (a b : N) : N := (a + b - 1) / b.

(* list helpers used everywhere *)
Fixpoint nseq (start : N) (len : nat) : list N :=
  match len with O => [] | S k => start :: nseq (start + 1) k end.

Definition nthN {A} (l : list A) (i : N) (d : A) : A := nth (N.to_nat i) l d.
Definition lenN {A} (l : list A) : N := N.of_nat (length l).

Definition sumN (l : list N) : N := fold_right N.add 0 l.
Definition sumZ (l : list Z) : Z := fold_right Z.add 0%Z l.
Definition maxN (l : list N) : N := fold_right N.max 0 l.
