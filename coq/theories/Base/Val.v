(* Generic value type used at the boundary between the executable model and
   the outside world (extracted driver, generated case files).  Every model
   entry point is exposed as a function [val -> val] through Dispatch.v, so
   the OCaml driver only needs to parse and print this one type. *)
From Coq Require Import ZArith List String.
Import ListNotations.
Open Scope Z_scope.

Inductive val : Type :=
| VZ (z : Z)                 (* integer, decimal in the wire syntax *)
| VS (bytes : list N)        (* byte string, hex in the wire syntax: x0a0b *)
| VT (tag : string)          (* atom *)
| VL (items : list val).     (* list, ( a b c ) *)

Definition vN (n : N) : val := VZ (Z.of_N n).
Definition vnat (n : nat) : val := VZ (Z.of_nat n).
Definition vbool (b : bool) : val := VT (if b then "true" else "false")%string.

Definition bad : val := VT "badargs"%string.

Definition getZ (v : val) : option Z := match v with VZ z => Some z | _ => None end.
Definition getN (v : val) : option N :=
  match v with VZ z => if (z <? 0)%Z then None else Some (Z.to_N z) | _ => None end.
Definition getS (v : val) : option (list N) := match v with VS b => Some b | _ => None end.
Definition getL (v : val) : option (list val) := match v with VL l => Some l | _ => None end.
Definition getB (v : val) : option bool :=
  match v with
  | VT t => if String.eqb t "true" then Some true
            else if String.eqb t "false" then Some false else None
  | _ => None end.

Fixpoint all_some {A} (l : list (option A)) : option (list A) :=
  match l with
  | [] => Some []
  | None :: _ => None
  | Some a :: r => match all_some r with Some r' => Some (a :: r') | None => None end
  end.

Definition getZs (v : val) : option (list Z) :=
  match v with VL l => all_some (map getZ l) | _ => None end.
Definition getNs (v : val) : option (list N) :=
  match v with VL l => all_some (map getN l) | _ => None end.

Definition vZs (l : list Z) : val := VL (map VZ l).
Definition vNs (l : list N) : val := VL (map vN l).

(* Outcomes of modelled Python functions: the classes of exception that can
   escape are explicit constructors. *)
Inductive crash : Type :=
| StructError | IndexError | AssertionError | ZeroDivisionError | BroadcastError
| CopyError | ValueError | TypeError | KeyError | EOFError | ZlibError
| PILError | OverflowError | RuntimeError | NotImplementedError | OutOfFuel.

Inductive outcome (A : Type) : Type :=
| Ok (a : A)
| FormatErr      (* chunk_encoding.InvalidFormatError, mesh.InvalidMeshDataError *)
| InfoErr        (* InvalidInfoError *)
| AccessErr      (* accessor.DataAccessError *)
| IOErr          (* OSError family incl. ShardedIOError *)
| Refused        (* rejection by an explicit guard *)
| Crash (k : crash).
Arguments Ok {A} a.
Arguments FormatErr {A}.
Arguments InfoErr {A}.
Arguments AccessErr {A}.
Arguments IOErr {A}.
Arguments Refused {A}.
Arguments Crash {A} k.

Definition bind {A B} (o : outcome A) (f : A -> outcome B) : outcome B :=
  match o with
  | Ok a => f a
  | FormatErr => FormatErr | InfoErr => InfoErr | AccessErr => AccessErr
  | IOErr => IOErr | Refused => Refused | Crash k => Crash k
  end.

Definition is_crash {A} (o : outcome A) : bool :=
  match o with Crash _ => true | _ => false end.

Definition crash_name (k : crash) : string :=
  match k with
  | StructError => "StructError" | IndexError => "IndexError"
  | AssertionError => "AssertionError" | ZeroDivisionError => "ZeroDivisionError"
  | BroadcastError => "BroadcastError" | CopyError => "CopyError"
  | ValueError => "ValueError" | TypeError => "TypeError" | KeyError => "KeyError"
  | EOFError => "EOFError" | ZlibError => "ZlibError" | PILError => "PILError"
  | OverflowError => "OverflowError" | RuntimeError => "RuntimeError"
  | NotImplementedError => "NotImplementedError" | OutOfFuel => "OutOfFuel"
  end%string.

Definition v_outcome {A} (f : A -> val) (o : outcome A) : val :=
  match o with
  | Ok a => VL [VT "ok"; f a]
  | FormatErr => VL [VT "FormatErr"]
  | InfoErr => VL [VT "InfoErr"]
  | AccessErr => VL [VT "AccessErr"]
  | IOErr => VL [VT "IOErr"]
  | Refused => VL [VT "Refused"]
  | Crash k => VL [VT "Crash"; VT (crash_name k)]
  end%string.
