(* Proofs for C13 (convert_chunks) and C19 (command compositions) over the
   models of Conv/ConvModel.v.  Statements are re-exported in
   Properties/C13.v and Properties/C19.v. *)
From Coq Require Import NArith ZArith List Bool Lia.
From NGS Require Import Val Ints PioModel PioProofs VolModel VolProofs ConvModel.
Import ListNotations.
Open Scope Z_scope.

(* ---------- generic fold_left facts ---------- *)
Lemma fold_left_flat_map_nested {A B C} (g : A -> B -> A) (h : C -> list B) : forall l a,
  fold_left g (flat_map h l) a = fold_left (fun a' x => fold_left g (h x) a') l a.
Proof.
  induction l as [|x l IH]; intros a; [reflexivity|].
  cbn [flat_map fold_left]. rewrite fold_left_app. apply IH.
Qed.

Lemma fold_left_map_arg {A B C} (g : A -> B -> A) (h : C -> B) : forall l a,
  fold_left g (map h l) a = fold_left (fun a' x => g a' (h x)) l a.
Proof.
  induction l as [|x l IH]; intros a; [reflexivity|].
  cbn [map fold_left]. apply IH.
Qed.

Lemma fold_left_ext_fun {A B} (g1 g2 : A -> B -> A) :
  (forall a x, g1 a x = g2 a x) -> forall l a, fold_left g1 l a = fold_left g2 l a.
Proof.
  intros Hg. induction l as [|x l IH]; intros a; [reflexivity|].
  cbn [fold_left]. rewrite Hg. apply IH.
Qed.

Definition is_ok {A} (o : outcome A) : Prop :=
  match o with Ok _ => True | _ => False end.

(* ---------- C13: the two grids hold the same chunks ---------- *)
Lemma in_cgrid size cs c :
  In c (cgrid size cs) <->
  let '(sx, sy, sz) := size in let '(cx, cy, cz) := cs in
  let '(x0, x1, y0, y1, z0, z1) := c in
  In (x0, x1) (axis_chunks_z sx cx) /\ In (y0, y1) (axis_chunks_z sy cy) /\
  In (z0, z1) (axis_chunks_z sz cz).
Proof.
  destruct size as [[sx sy] sz], cs as [[cx cy] cz].
  destruct c as [[[[[x0 x1] y0] y1] z0] z1].
  unfold cgrid. rewrite in_flat_map. split.
  - intros (xr & Hx & Hin). apply in_flat_map in Hin. destruct Hin as (yr & Hy & Hin).
    apply in_map_iff in Hin. destruct Hin as (zr & Heq & Hz).
    destruct xr as [a b], yr as [a' b'], zr as [a'' b'']. cbn [fst snd] in Heq.
    injection Heq as <- <- <- <- <- <-. auto.
  - intros (Hx & Hy & Hz). exists (x0, x1). split; [exact Hx|].
    apply in_flat_map. exists (y0, y1). split; [exact Hy|].
    apply in_map_iff. exists (z0, z1). split; [reflexivity|exact Hz].
Qed.

Lemma cgrid_vgrid : forall size cs c,
  In c (cgrid size cs) <-> In c (vgrid size cs).
Proof.
  intros size cs c. rewrite in_cgrid, in_vgrid. reflexivity.
Qed.

(* ---------- C13: the conversion loop ---------- *)
Definition no_src_store (tr : list event) : Prop :=
  Forall (fun e => match e with EStore Src _ _ => False | _ => True end) tr.

Section ConvP.
  Variable V : Type.
  Variable f : V -> V.
  Variable sbytes dbytes : Type.
  Variable sdecode : list N -> sbytes -> triple -> outcome (cchunk V).
  Variable dencode : list N -> cchunk V -> outcome dbytes.
  Variable sscales dscales : list scale.
  Variable src : store sbytes.

  Let acc_t := outcome (store dbytes * list event).

  (* one iteration of the flattened loop *)
  Definition cstep (a : acc_t) (kc : list N * coords) : acc_t :=
    conv_chunk V f sbytes dbytes sdecode dencode sscales dscales src a (fst kc) (snd kc).

  (* every (key, position) visited, in visiting order *)
  Definition all_chunks (l : list scale) : list (list N * coords) :=
    flat_map (fun s =>
      flat_map (fun cs => map (fun c => (sc_key s, c)) (cgrid (sc_size s) cs)) (sc_chunk_sizes s)) l.

  Lemma conv_scale_flat a s :
    conv_scale V f sbytes dbytes sdecode dencode sscales dscales src a s
    = fold_left cstep (all_chunks [s]) a.
  Proof.
    unfold all_chunks. cbn [flat_map]. rewrite app_nil_r.
    rewrite fold_left_flat_map_nested. unfold conv_scale.
    apply fold_left_ext_fun. intros a' cs.
    rewrite fold_left_map_arg. reflexivity.
  Qed.

  Lemma convert_chunks_flat dst0 :
    convert_chunks V f sbytes dbytes sdecode dencode sscales dscales src dst0
    = fold_left cstep (all_chunks (rev dscales)) (Ok (dst0, [])).
  Proof.
    unfold convert_chunks. unfold all_chunks at 1.
    rewrite fold_left_flat_map_nested.
    apply fold_left_ext_fun. intros a s.
    rewrite conv_scale_flat. unfold all_chunks. cbn [flat_map]. rewrite app_nil_r.
    reflexivity.
  Qed.

  Lemma in_all_chunks l s cs c :
    In s l -> In cs (sc_chunk_sizes s) -> In c (cgrid (sc_size s) cs) ->
    In (sc_key s, c) (all_chunks l).
  Proof.
    intros Hs Hcs Hc. unfold all_chunks.
    apply in_flat_map. exists s. split; [exact Hs|].
    apply in_flat_map. exists cs. split; [exact Hcs|].
    apply in_map_iff. exists c. split; [reflexivity|exact Hc].
  Qed.

  (* the first failure aborts the command *)
  Lemma cstep_err a kc : ~ is_ok a -> cstep a kc = a.
  Proof.
    intros Ha. unfold cstep, conv_chunk.
    destruct a; cbn [bind]; try reflexivity. exfalso. apply Ha. exact I.
  Qed.

  Lemma fold_cstep_err : forall l a, ~ is_ok a -> fold_left cstep l a = a.
  Proof.
    induction l as [|kc l IH]; intros a Ha; [reflexivity|].
    cbn [fold_left]. rewrite (cstep_err a kc Ha). apply IH. exact Ha.
  Qed.

  (* what a successful iteration did *)
  Lemma cstep_ok dst0 tr0 k c dst tr :
    cstep (Ok (dst0, tr0)) (k, c) = Ok (dst, tr) ->
    exists ch b,
      read_chunk (cchunk V) sbytes sdecode sscales src k c = Ok ch /\
      check_valid dscales k c = Ok tt /\
      dencode k (tmap V f ch) = Ok b /\
      dst = (k, c, b) :: dst0 /\
      tr = tr0 ++ [EFetch Src k c; EStore Dst k c].
  Proof.
    unfold cstep, conv_chunk. cbn [bind fst snd].
    destruct (read_chunk (cchunk V) sbytes sdecode sscales src k c) as [ch| | | | | |cr] eqn:Er;
      cbn [bind]; try discriminate.
    unfold write_chunk.
    destruct (check_valid dscales k c) as [u| | | | | |cr] eqn:Ev; cbn [bind]; try discriminate.
    destruct (dencode k (tmap V f ch)) as [b| | | | | |cr] eqn:Ee; cbn [bind]; try discriminate.
    intros H. injection H as <- <-.
    destruct u. exists ch, b. repeat split; assumption || reflexivity.
  Qed.

  Lemma fold_cstep_cons kc l dst0 tr0 dst tr :
    fold_left cstep (kc :: l) (Ok (dst0, tr0)) = Ok (dst, tr) ->
    exists dst1 tr1,
      cstep (Ok (dst0, tr0)) kc = Ok (dst1, tr1) /\
      fold_left cstep l (Ok (dst1, tr1)) = Ok (dst, tr).
  Proof.
    cbn [fold_left]. intros H.
    destruct (cstep (Ok (dst0, tr0)) kc) as [[dst1 tr1]| | | | | |cr] eqn:E.
    1: exists dst1, tr1; split; [reflexivity|exact H].
    all: rewrite fold_cstep_err in H by (intros Hok; exact Hok); discriminate.
  Qed.

  (* ---- the source is never written ---- *)
  Lemma fold_cstep_no_src_store : forall l dst0 tr0 dst tr,
    fold_left cstep l (Ok (dst0, tr0)) = Ok (dst, tr) ->
    no_src_store tr0 -> no_src_store tr.
  Proof.
    induction l as [|[k c] l IH]; intros dst0 tr0 dst tr H Htr.
    - cbn [fold_left] in H. injection H as <- <-. exact Htr.
    - apply fold_cstep_cons in H. destruct H as (dst1 & tr1 & Hs & Hf).
      apply cstep_ok in Hs. destruct Hs as (ch & b & _ & _ & _ & _ & ->).
      apply (IH _ _ _ _ Hf).
      unfold no_src_store. apply Forall_app. split; [exact Htr|].
      repeat constructor.
  Qed.

  Lemma source_never_written_sec dst0 dst tr :
    convert_chunks V f sbytes dbytes sdecode dencode sscales dscales src dst0 = Ok (dst, tr) ->
    no_src_store tr.
  Proof.
    rewrite convert_chunks_flat. intros H.
    apply (fold_cstep_no_src_store _ _ _ _ _ H). constructor.
  Qed.

  (* ---- every stored entry is the encoding of the converted source chunk ---- *)
  Definition good (dst : store dbytes) : Prop :=
    forall k c b, lookup dbytes dst k c = Some b ->
      check_valid dscales k c = Ok tt /\
      exists ch, read_chunk (cchunk V) sbytes sdecode sscales src k c = Ok ch /\
                 dencode k (tmap V f ch) = Ok b.

  Definition present (dst : store dbytes) (k : list N) (c : coords) : Prop :=
    lookup dbytes dst k c <> None.

  Lemma fold_cstep_good : forall l dst0 tr0 dst tr,
    fold_left cstep l (Ok (dst0, tr0)) = Ok (dst, tr) ->
    good dst0 ->
    good dst /\
    (forall k c, present dst0 k c -> present dst k c) /\
    (forall k c, In (k, c) l -> present dst k c).
  Proof.
    induction l as [|[k c] l IH]; intros dst0 tr0 dst tr H Hg.
    - cbn [fold_left] in H. injection H as <- <-.
      split; [exact Hg|]. split; [auto|]. intros k c [].
    - apply fold_cstep_cons in H. destruct H as (dst1 & tr1 & Hs & Hf).
      apply cstep_ok in Hs. destruct Hs as (ch & b & Hr & Hv & He & -> & ->).
      assert (good ((k, c, b) :: dst0)) as Hg1.
      { intros k' c' b' Hl. cbn [lookup] in Hl.
        destruct (key_eqb k' k && coords_eqb c' c) eqn:Eq.
        - apply andb_true_iff in Eq. destruct Eq as [E1 E2].
          apply key_eqb_eq in E1. apply coords_eqb_eq in E2. subst k' c'.
          injection Hl as <-. split; [exact Hv|]. exists ch. split; assumption.
        - apply Hg. exact Hl. }
      destruct (IH _ _ _ _ Hf Hg1) as (Hgd & Hmono & Hin).
      split; [exact Hgd|]. split.
      + intros k' c' Hp. apply Hmono. unfold present in *. cbn [lookup].
        destruct (key_eqb k' k && coords_eqb c' c); [discriminate|exact Hp].
      + intros k' c' [Heq|Hl].
        * injection Heq as <- <-. apply Hmono. unfold present. cbn [lookup].
          rewrite key_eqb_refl, coords_eqb_refl. cbn [andb]. discriminate.
        * apply Hin. exact Hl.
  Qed.

  (* ---- a source chunk that cannot be read makes the command fail ---- *)
  Lemma convert_ok_reads_all_sec dst0 dst tr :
    convert_chunks V f sbytes dbytes sdecode dencode sscales dscales src dst0 = Ok (dst, tr) ->
    good dst0 ->
    forall s cs c,
    In s dscales -> In cs (sc_chunk_sizes s) -> In c (cgrid (sc_size s) cs) ->
    exists ch, read_chunk (cchunk V) sbytes sdecode sscales src (sc_key s) c = Ok ch.
  Proof.
    rewrite convert_chunks_flat. intros H Hg0 s cs c Hs Hcs Hc.
    destruct (fold_cstep_good _ _ _ _ _ H Hg0) as (Hgd & _ & Hin).
    assert (present dst (sc_key s) c) as Hp.
    { apply Hin. apply (in_all_chunks _ s cs c); [|assumption..].
      apply in_rev. rewrite rev_involutive. exact Hs. }
    unfold present in Hp.
    destruct (lookup dbytes dst (sc_key s) c) as [b|] eqn:El; [|exfalso; apply Hp; reflexivity].
    destruct (Hgd _ _ _ El) as (_ & ch & Hr & _). exists ch. exact Hr.
  Qed.

  Lemma convert_fails_on_unreadable_source_sec s cs c :
    In s dscales -> In cs (sc_chunk_sizes s) -> In c (cgrid (sc_size s) cs) ->
    ~ is_ok (read_chunk (cchunk V) sbytes sdecode sscales src (sc_key s) c) ->
    ~ is_ok (convert_chunks V f sbytes dbytes sdecode dencode sscales dscales src []).
  Proof.
    intros Hs Hcs Hc Hbad Hok.
    destruct (convert_chunks V f sbytes dbytes sdecode dencode sscales dscales src [])
      as [[dst tr]| | | | | |cr] eqn:E; try exact Hok.
    assert (good []) as Hg0 by (intros k' c' b' Hl; discriminate).
    destruct (convert_ok_reads_all_sec [] dst tr E Hg0 s cs c Hs Hcs Hc) as [ch Hr].
    apply Hbad. rewrite Hr. exact I.
  Qed.

  Variable ddecode : list N -> dbytes -> triple -> outcome (cchunk V).
  Hypothesis d_roundtrip : forall k ch b, dencode k ch = Ok b -> ddecode k b (fst ch) = Ok ch.
  Hypothesis s_shape : forall k b e ch, sdecode k b e = Ok ch -> fst ch = e.

  Lemma read_src_shape k c ch :
    read_chunk (cchunk V) sbytes sdecode sscales src k c = Ok ch -> fst ch = extents c.
  Proof.
    unfold read_chunk.
    destruct (check_valid sscales k c); cbn [bind]; try discriminate.
    destruct (lookup sbytes src k c) as [b|]; [|discriminate].
    apply s_shape.
  Qed.

  Lemma convert_pointwise_sec dst tr :
    convert_chunks V f sbytes dbytes sdecode dencode sscales dscales src [] = Ok (dst, tr) ->
    forall s cs c,
    In s dscales -> In cs (sc_chunk_sizes s) -> In c (cgrid (sc_size s) cs) ->
    exists ch,
      read_chunk (cchunk V) sbytes sdecode sscales src (sc_key s) c = Ok ch /\
      read_chunk (cchunk V) dbytes ddecode dscales dst (sc_key s) c = Ok (tmap V f ch).
  Proof.
    rewrite convert_chunks_flat. intros H s cs c Hs Hcs Hc.
    assert (good []) as Hg0 by (intros k' c' b' Hl; discriminate).
    destruct (fold_cstep_good _ _ _ _ _ H Hg0) as (Hgd & _ & Hin).
    assert (present dst (sc_key s) c) as Hp.
    { apply Hin. apply (in_all_chunks _ s cs c); [|assumption..].
      apply in_rev. rewrite rev_involutive. exact Hs. }
    unfold present in Hp.
    destruct (lookup dbytes dst (sc_key s) c) as [b|] eqn:El; [|exfalso; apply Hp; reflexivity].
    destruct (Hgd _ _ _ El) as (Hv & ch & Hr & He).
    exists ch. split; [exact Hr|].
    unfold read_chunk. rewrite Hv. cbn [bind]. rewrite El.
    pose proof (d_roundtrip _ _ _ He) as Hd.
    replace (fst (tmap V f ch)) with (extents c) in Hd; [exact Hd|].
    unfold tmap. cbn [fst]. symmetry. apply (read_src_shape _ _ _ Hr).
  Qed.
  (* ---- a destination that is NOT empty ----
     whatever the destination held before, every position the command visits
     ends up holding the encoding of the converted source chunk, and positions
     it does not visit keep what they had *)
  Definition good_at (dst : store dbytes) (k : list N) (c : coords) : Prop :=
    forall b, lookup dbytes dst k c = Some b ->
      check_valid dscales k c = Ok tt /\
      exists ch, read_chunk (cchunk V) sbytes sdecode sscales src k c = Ok ch /\
                 dencode k (tmap V f ch) = Ok b.

  Lemma kc_eq_dec : forall a b : list N * coords, {a = b} + {a <> b}.
  Proof.
    intros [k1 c1] [k2 c2].
    destruct (list_eq_dec N.eq_dec k1 k2) as [->|Hk]; [|right; congruence].
    destruct c1 as [[[[[a1 a2] a3] a4] a5] a6], c2 as [[[[[b1 b2] b3] b4] b5] b6].
    destruct (Z.eq_dec a1 b1) as [->|?]; [|right; congruence].
    destruct (Z.eq_dec a2 b2) as [->|?]; [|right; congruence].
    destruct (Z.eq_dec a3 b3) as [->|?]; [|right; congruence].
    destruct (Z.eq_dec a4 b4) as [->|?]; [|right; congruence].
    destruct (Z.eq_dec a5 b5) as [->|?]; [|right; congruence].
    destruct (Z.eq_dec a6 b6) as [->|?]; [|right; congruence].
    left; reflexivity.
  Qed.

  Lemma lookup_cons_other (dst : store dbytes) k c b k' c' :
    (k', c') <> (k, c) -> lookup dbytes ((k, c, b) :: dst) k' c' = lookup dbytes dst k' c'.
  Proof.
    intros Hne. cbn [lookup].
    destruct (key_eqb k' k && coords_eqb c' c) eqn:E; [|reflexivity].
    apply andb_true_iff in E. destruct E as [E1 E2].
    apply key_eqb_eq in E1. apply coords_eqb_eq in E2. subst. exfalso. apply Hne. reflexivity.
  Qed.

  Lemma fold_cstep_visited : forall l dst0 tr0 dst tr,
    fold_left cstep l (Ok (dst0, tr0)) = Ok (dst, tr) ->
    (forall k c, In (k, c) l -> present dst k c /\ good_at dst k c) /\
    (forall k c, ~ In (k, c) l -> lookup dbytes dst k c = lookup dbytes dst0 k c).
  Proof.
    induction l as [|[k c] l IH]; intros dst0 tr0 dst tr H.
    - cbn [fold_left] in H. injection H as <- <-. split; [intros k c []|reflexivity].
    - apply fold_cstep_cons in H. destruct H as (dst1 & tr1 & Hs & Hf).
      apply cstep_ok in Hs. destruct Hs as (ch & b & Hr & Hv & He & -> & ->).
      destruct (IH _ _ _ _ Hf) as [IHin IHout].
      split.
      + intros k' c' [Heq|Hl]; [|apply IHin; exact Hl].
        injection Heq as <- <-.
        destruct (in_dec kc_eq_dec (k, c) l) as [Hin|Hnin]; [apply IHin; exact Hin|].
        assert (lookup dbytes dst k c = Some b) as Hl.
        { rewrite (IHout k c Hnin). cbn [lookup]. rewrite key_eqb_refl, coords_eqb_refl. reflexivity. }
        split.
        * unfold present. rewrite Hl. discriminate.
        * intros b' Hb'. rewrite Hl in Hb'. injection Hb' as <-.
          split; [exact Hv|]. exists ch. split; assumption.
      + intros k' c' Hn.
        assert ((k', c') <> (k, c)) as Hne by (intro E; apply Hn; left; symmetry; exact E).
        assert (~ In (k', c') l) as Hn' by (intro E; apply Hn; right; exact E).
        rewrite (IHout k' c' Hn'). apply lookup_cons_other. exact Hne.
  Qed.

  Lemma convert_pointwise_populated_sec dst0 dst tr :
    convert_chunks V f sbytes dbytes sdecode dencode sscales dscales src dst0 = Ok (dst, tr) ->
    (forall s cs c,
       In s dscales -> In cs (sc_chunk_sizes s) -> In c (cgrid (sc_size s) cs) ->
       exists ch,
         read_chunk (cchunk V) sbytes sdecode sscales src (sc_key s) c = Ok ch /\
         read_chunk (cchunk V) dbytes ddecode dscales dst (sc_key s) c = Ok (tmap V f ch)) /\
    (forall k c, ~ In (k, c) (all_chunks (rev dscales)) ->
       lookup dbytes dst k c = lookup dbytes dst0 k c).
  Proof.
    rewrite convert_chunks_flat. intros H.
    destruct (fold_cstep_visited _ _ _ _ _ H) as [Hin Hout].
    split; [|exact Hout].
    intros s cs c Hs Hcs Hc.
    assert (In (sc_key s, c) (all_chunks (rev dscales))) as Hvis.
    { apply (in_all_chunks _ s cs c); [|assumption..].
      apply in_rev. rewrite rev_involutive. exact Hs. }
    destruct (Hin _ _ Hvis) as [Hp Hg].
    unfold present in Hp.
    destruct (lookup dbytes dst (sc_key s) c) as [b|] eqn:El; [|exfalso; apply Hp; reflexivity].
    destruct (Hg b El) as (Hv & ch & Hr & He).
    exists ch. split; [exact Hr|].
    unfold read_chunk. rewrite Hv. cbn [bind]. rewrite El.
    pose proof (d_roundtrip _ _ _ He) as Hd.
    replace (fst (tmap V f ch)) with (extents c) in Hd; [exact Hd|].
    unfold tmap. cbn [fst]. symmetry. apply (read_src_shape _ _ _ Hr).
  Qed.
End ConvP.

Lemma convert_fails_on_unreadable_source :
  forall V f sbytes dbytes sdecode dencode sscales dscales src s cs c,
  In s dscales -> In cs (sc_chunk_sizes s) -> In c (cgrid (sc_size s) cs) ->
  ~ is_ok (read_chunk (cchunk V) sbytes sdecode sscales src (sc_key s) c) ->
  ~ is_ok (convert_chunks V f sbytes dbytes sdecode dencode sscales dscales src []).
Proof.
  intros. eapply convert_fails_on_unreadable_source_sec; eassumption.
Qed.

Lemma source_never_written :
  forall V f sbytes dbytes sdecode dencode sscales dscales src dst0 dst tr,
  convert_chunks V f sbytes dbytes sdecode dencode sscales dscales src dst0 = Ok (dst, tr) ->
  Forall (fun e => match e with EStore Src _ _ => False | _ => True end) tr.
Proof.
  intros V f sbytes dbytes sdecode dencode sscales dscales src dst0 dst tr H.
  exact (source_never_written_sec V f sbytes dbytes sdecode dencode sscales dscales src dst0 dst tr H).
Qed.

(* NoDup of the destination keys is not needed by the proof: chunks are
   addressed by key, and a write that succeeded was validated against the
   scale that find_scale selects for that key, which is also the one a later
   read uses. *)
Lemma convert_pointwise_chunks :
  forall (V : Type) (f : V -> V) (sbytes dbytes : Type)
         (sdecode : list N -> sbytes -> triple -> outcome (cchunk V))
         (dencode : list N -> cchunk V -> outcome dbytes)
         (ddecode : list N -> dbytes -> triple -> outcome (cchunk V)),
  (forall k ch b, dencode k ch = Ok b -> ddecode k b (fst ch) = Ok ch) ->
  (forall k b e ch, sdecode k b e = Ok ch -> fst ch = e) ->
  forall sscales dscales src dst tr,
  NoDup (map sc_key dscales) ->
  convert_chunks V f sbytes dbytes sdecode dencode sscales dscales src [] = Ok (dst, tr) ->
  forall s cs c,
  In s dscales -> In cs (sc_chunk_sizes s) -> In c (cgrid (sc_size s) cs) ->
  exists ch,
    read_chunk (cchunk V) sbytes sdecode sscales src (sc_key s) c = Ok ch /\
    read_chunk (cchunk V) dbytes ddecode dscales dst (sc_key s) c = Ok (tmap V f ch).
Proof.
  intros V f sbytes dbytes sdecode dencode ddecode Hrt Hsh sscales dscales src dst tr _ H.
  exact (convert_pointwise_sec V f sbytes dbytes sdecode dencode sscales dscales src
           ddecode Hrt Hsh dst tr H).
Qed.

Lemma convert_pointwise_populated :
  forall (V : Type) (f : V -> V) (sbytes dbytes : Type)
         (sdecode : list N -> sbytes -> triple -> outcome (cchunk V))
         (dencode : list N -> cchunk V -> outcome dbytes)
         (ddecode : list N -> dbytes -> triple -> outcome (cchunk V)),
  (forall k ch b, dencode k ch = Ok b -> ddecode k b (fst ch) = Ok ch) ->
  (forall k b e ch, sdecode k b e = Ok ch -> fst ch = e) ->
  forall sscales dscales src (dst0 : store dbytes) dst tr,
  convert_chunks V f sbytes dbytes sdecode dencode sscales dscales src dst0 = Ok (dst, tr) ->
  forall s cs c,
  In s dscales -> In cs (sc_chunk_sizes s) -> In c (cgrid (sc_size s) cs) ->
  exists ch,
    read_chunk (cchunk V) sbytes sdecode sscales src (sc_key s) c = Ok ch /\
    read_chunk (cchunk V) dbytes ddecode dscales dst (sc_key s) c = Ok (tmap V f ch).
Proof.
  intros V f sbytes dbytes sdecode dencode ddecode Hrt Hsh sscales dscales src dst0 dst tr H.
  exact (proj1 (convert_pointwise_populated_sec V f sbytes dbytes sdecode dencode sscales dscales src
                  ddecode Hrt Hsh dst0 dst tr H)).
Qed.

(* non-vacuity: a two-scale destination (different chunk sizes, one of them
   not dividing the volume), identity codecs, f = successor; the command
   succeeds and the hypotheses of convert_pointwise_chunks hold *)
Definition ex_scales : list scale :=
  [ {| sc_key := [1%N]; sc_size := (3, 2, 1); sc_chunk_sizes := [(2, 2, 1)];
       sc_voxel_offset := Some (0, 0, 0) |};
    {| sc_key := [2%N]; sc_size := (2, 1, 1); sc_chunk_sizes := [(1, 1, 1)];
       sc_voxel_offset := Some (0, 0, 0) |} ].
Definition ex_dec (k : list N) (b : cchunk Z) (e : triple) : outcome (cchunk Z) :=
  if (let '(a1, a2, a3) := fst b in let '(e1, e2, e3) := e in
      (a1 =? e1) && (a2 =? e2) && (a3 =? e3))
  then Ok b else FormatErr.
Definition ex_enc (k : list N) (ch : cchunk Z) : outcome (cchunk Z) := Ok ch.
Definition ex_src : store (cchunk Z) :=
  [ ([1%N], (0, 2, 0, 2, 0, 1), ((2, 2, 1), [1; 2; 3; 4]));
    ([1%N], (2, 3, 0, 2, 0, 1), ((1, 2, 1), [5; 6]));
    ([2%N], (0, 1, 0, 1, 0, 1), ((1, 1, 1), [7]));
    ([2%N], (1, 2, 0, 1, 0, 1), ((1, 1, 1), [8])) ].

Example convert_pointwise_chunks_nonvacuous :
  (forall k ch b, ex_enc k ch = Ok b -> ex_dec k b (fst ch) = Ok ch) /\
  (forall k b e ch, ex_dec k b e = Ok ch -> fst ch = e) /\
  NoDup (map sc_key ex_scales) /\
  exists dst tr,
    convert_chunks Z Z.succ (cchunk Z) (cchunk Z) ex_dec ex_enc ex_scales ex_scales ex_src []
      = Ok (dst, tr) /\
    length tr = 8%nat /\
    read_chunk (cchunk Z) (cchunk Z) ex_dec ex_scales dst [1%N] (2, 3, 0, 2, 0, 1)
      = Ok ((1, 2, 1), [6; 7]).
Proof.
  split; [|split; [|split]].
  - intros k ch b H. unfold ex_enc in H. injection H as <-.
    unfold ex_dec. destruct (fst ch) as [[a1 a2] a3]. rewrite !Z.eqb_refl. reflexivity.
  - intros k b e ch. unfold ex_dec.
    destruct (fst b) as [[a1 a2] a3] eqn:Eb. destruct e as [[e1 e2] e3].
    destruct ((a1 =? e1) && (a2 =? e2) && (a3 =? e3)) eqn:E; [|discriminate].
    intros H. injection H as <-. rewrite Eb.
    apply andb_true_iff in E. destruct E as [E E3].
    apply andb_true_iff in E. destruct E as [E1 E2].
    apply Z.eqb_eq in E1, E2, E3. subst. reflexivity.
  - cbn. repeat constructor; cbn; intuition discriminate.
  - eexists. eexists. split; [vm_compute; reflexivity|]. split; vm_compute; reflexivity.
Qed.

(* ---------- C19 ---------- *)
Lemma all_in_one_eq_steps :
  forall (info dataset vol opts : Type)
         (gen_info : vol -> opts -> info) (fill_scales : info -> info)
         (new_dataset : info -> dataset) (stored_info : dataset -> info)
         (write_volume : vol -> opts -> info -> dataset -> dataset)
         (compute_scales : opts -> info -> dataset -> dataset),
  (forall i, stored_info (new_dataset i) = i) ->
  (forall v o i d, stored_info (write_volume v o i d) = stored_info d) ->
  forall v o,
  all_in_one info dataset vol opts gen_info fill_scales new_dataset write_volume compute_scales v o
  = step_by_step info dataset vol opts gen_info fill_scales new_dataset stored_info write_volume compute_scales v o.
Proof.
  intros info dataset vol opts gen_info fill_scales new_dataset stored_info
         write_volume compute_scales Hnew Hwv v o.
  unfold all_in_one, step_by_step. cbv zeta.
  rewrite Hwv. rewrite !Hnew. reflexivity.
Qed.

Section Repeat.
  Variables chunk bytes : Type.
  Variable encode : list N -> chunk -> outcome bytes.
  Variable scales : list scale.

  Lemma last_written_app : forall l1 l2 k c acc,
    last_written chunk bytes encode scales (l1 ++ l2) k c acc
    = last_written chunk bytes encode scales l2 k c
        (last_written chunk bytes encode scales l1 k c acc).
  Proof.
    induction l1 as [|o l1 IH]; intros l2 k c acc; [reflexivity|].
    cbn [app last_written]. destruct o as [ch k' c'|k' c'].
    - destruct (write_chunk chunk bytes encode scales [] ch k' c'); try apply IH.
      destruct (key_eqb k k' && coords_eqb c c'); apply IH.
    - apply IH.
  Qed.

  (* the result of a sequence either ignores the initial value or returns it *)
  Lemma last_written_const_or_id : forall ops k c,
    (exists r, forall acc, last_written chunk bytes encode scales ops k c acc = r) \/
    (forall acc, last_written chunk bytes encode scales ops k c acc = acc).
  Proof.
    induction ops as [|o ops IH]; intros k c.
    - right. intros acc. reflexivity.
    - destruct o as [ch k' c'|k' c']; cbn [last_written].
      + destruct (write_chunk chunk bytes encode scales [] ch k' c'); try apply IH.
        destruct (key_eqb k k' && coords_eqb c c'); [|apply IH].
        destruct (IH k c) as [[r Hr]|Hid].
        * left. exists r. intros acc. apply Hr.
        * left. exists (Some ch). intros acc. apply Hid.
      + apply IH.
  Qed.

  Lemma last_written_twice ops k c acc :
    last_written chunk bytes encode scales (ops ++ ops) k c acc
    = last_written chunk bytes encode scales ops k c acc.
  Proof.
    rewrite last_written_app.
    destruct (last_written_const_or_id ops k c) as [[r Hr]|Hid].
    - rewrite !Hr. reflexivity.
    - rewrite !Hid. reflexivity.
  Qed.
End Repeat.

Lemma write_volume_repeatable :
  forall (V : Type) (f : V -> V) (vol : Z -> Z -> Z -> Z -> V) (nch : Z) (bytes : Type)
         (encode : list N -> vchunk V -> outcome bytes)
         (decode : list N -> bytes -> triple -> outcome (vchunk V)),
  (forall k ch b, encode k ch = Ok b -> decode k b (vshape V ch) = Ok ch) ->
  forall scales key size cs k c,
  let ops := convert_ops V f vol nch key size cs in
  check_valid scales k c = Ok tt ->
  read_chunk (vchunk V) bytes decode scales
             (fst (run (vchunk V) bytes encode decode scales [] (ops ++ ops))) k c
  = read_chunk (vchunk V) bytes decode scales
             (fst (run (vchunk V) bytes encode decode scales [] ops)) k c.
Proof.
  intros V f vol nch bytes encode decode Hrt scales key size cs k c ops Hv.
  assert (Forall (well_shaped (vchunk V) (vshape V)) ops) as Hws
    by (unfold ops, convert_ops; apply convert_well_shaped).
  assert (Forall (well_shaped (vchunk V) (vshape V)) (ops ++ ops)) as Hws2
    by (apply Forall_app; split; exact Hws).
  rewrite (io_refinement (vchunk V) bytes encode decode (vshape V) Hrt scales _ k c Hws2 Hv).
  rewrite (io_refinement (vchunk V) bytes encode decode (vshape V) Hrt scales _ k c Hws Hv).
  rewrite last_written_twice. reflexivity.
Qed.

(* non-vacuity for write_volume_repeatable: the identity codec above meets the
   round-trip hypothesis (shown in convert_pointwise_chunks_nonvacuous; vshape
   is fst), an edge chunk of a 3x2x1 volume in 2x2x1 chunks is a valid
   position, and it reads back the written data after one and after two runs *)
Example write_volume_repeatable_nonvacuous :
  let ops := convert_ops Z Z.succ (fun x y z ch => x + 10 * y) 1 [1%N] (3, 2, 1) (2, 2, 1) in
  check_valid ex_scales [1%N] (2, 3, 0, 2, 0, 1) = Ok tt /\
  read_chunk (vchunk Z) (vchunk Z) ex_dec ex_scales
    (fst (run (vchunk Z) (vchunk Z) ex_enc ex_dec ex_scales [] (ops ++ ops))) [1%N] (2, 3, 0, 2, 0, 1)
  = Ok ((1, 2, 1), [3; 13]).
Proof. split; vm_compute; reflexivity. Qed.
