(* Model of scripts/convert_chunks.py (C13) and of the command compositions
   of C19, over the I/O layer of PioModel and the tiling of VolModel.

   convert_chunks: scales in reverse order; for each chunk of the DESTINATION
   grid (x outermost, np.ndindex order): read from the source handle, apply
   the element-wise data type transformer, write to the destination handle.
   Every accessor-level effect is recorded in a trace so that "the source is
   never written" is a statement about the model. *)
From Coq Require Import NArith ZArith List Bool Lia.
From NGS Require Import Val Ints PioModel VolModel.
Import ListNotations.
Open Scope Z_scope.

(* np.ndindex(chunk_range) with (x_idx, y_idx, z_idx): x outermost *)
Definition cgrid (size cs : triple) : list coords :=
  let '(sx, sy, sz) := size in let '(cx, cy, cz) := cs in
  flat_map (fun xr =>
    flat_map (fun yr =>
      map (fun zr => (fst xr, snd xr, fst yr, snd yr, fst zr, snd zr)) (axis_chunks_z sz cz))
      (axis_chunks_z sy cy))
    (axis_chunks_z sx cx).

Inductive side := Src | Dst.
Inductive event := EFetch (s : side) (k : list N) (c : coords) | EStore (s : side) (k : list N) (c : coords).

Section Conv.
  Variable V : Type.
  Variable f : V -> V.                          (* element-wise transformer (C11) *)
  Definition cchunk := (triple * list V)%type.   (* extents, data in (C,Z,Y,X) order *)
  Variable sbytes dbytes : Type.
  Variable sdecode : list N -> sbytes -> triple -> outcome cchunk.
  Variable dencode : list N -> cchunk -> outcome dbytes.

  Definition tmap (ch : cchunk) : cchunk := (fst ch, map f (snd ch)).

  (* one chunk: read, transform, write; the first failure aborts the command *)
  Definition conv_chunk (sscales dscales : list scale) (src : store sbytes)
             (acc : outcome (store dbytes * list event)) (k : list N) (c : coords)
    : outcome (store dbytes * list event) :=
    bind acc (fun '(dst, tr) =>
    bind (read_chunk cchunk sbytes sdecode sscales src k c) (fun ch =>
    bind (write_chunk cchunk dbytes dencode dscales dst (tmap ch) k c) (fun dst' =>
    Ok (dst', tr ++ [EFetch Src k c; EStore Dst k c])))).

  Definition conv_scale (sscales dscales : list scale) (src : store sbytes)
             (acc : outcome (store dbytes * list event)) (s : scale)
    : outcome (store dbytes * list event) :=
    fold_left (fun a cs => fold_left (fun a' c => conv_chunk sscales dscales src a' (sc_key s) c)
                                     (cgrid (sc_size s) cs) a)
              (sc_chunk_sizes s) acc.

  (* for scale_index in reversed(range(len(dest_info["scales"]))) *)
  Definition convert_chunks (sscales dscales : list scale) (src : store sbytes) (dst0 : store dbytes)
    : outcome (store dbytes * list event) :=
    fold_left (conv_scale sscales dscales src) (rev dscales) (Ok (dst0, [])).
End Conv.

(* ---- C19: commands as compositions ---- *)
Section Commands.
  (* library steps, abstract: their own correctness is C08 / C01 / C06 *)
  Variable info dataset vol opts : Type.
  Variable gen_info : vol -> opts -> info.                  (* nibabel_image_to_info + set_info_params *)
  Variable fill_scales : info -> info.                      (* fill_scales_for_dyadic_pyramid, default target, no cap *)
  Variable new_dataset : info -> dataset.                   (* get_IO_for_new_dataset: stores the info *)
  Variable stored_info : dataset -> info.                   (* what a later command reads back *)
  Variable write_volume : vol -> opts -> info -> dataset -> dataset.   (* nibabel_image_to_precomputed *)
  Variable compute_scales : opts -> info -> dataset -> dataset.        (* compute_dyadic_scales *)

  (* volume-to-precomputed-pyramid *)
  Definition all_in_one (v : vol) (o : opts) : dataset :=
    let i := fill_scales (gen_info v o) in
    let d := new_dataset i in
    compute_scales o i (write_volume v o i d).

  (* generate-info; generate-scales-info; volume-to-precomputed; compute-scales:
     each later command re-reads the info from the dataset *)
  Definition step_by_step (v : vol) (o : opts) : dataset :=
    let d0 := new_dataset (fill_scales (gen_info v o)) in
    let d1 := write_volume v o (stored_info d0) d0 in
    compute_scales o (stored_info d1) d1.
End Commands.
