(* Extraction of the executable model.  ExtrOcamlBasic only: Z, N, positive,
   nat, string and ascii stay the extracted inductive types.  Monolithic, so
   that Coq's List/String modules do not shadow OCaml's at file level.  The
   file is written to the current directory (the build runs coqc from
   ocaml/gen). *)
From Coq Require Import Extraction ExtrOcamlBasic.
From NGS Require Import Val Dispatch.
Extraction Language OCaml.
Extraction "model.ml" dispatch.
