# Build of the verification framework: Coq theories (full .vo), property
# files with their Print Assumptions output captured, extraction, OCaml driver.
SHELL := /bin/bash
COQ := coq
QFLAGS := $(shell grep '^-Q' $(COQ)/_CoqProject | tr '\n' ' ')
THEORY_V := $(addprefix $(COQ)/,$(shell grep '\.v$$' $(COQ)/_CoqProject))
THEORY_VO := $(THEORY_V:.v=.vo)
# property files of the checks claimed in MANIFEST.json
PROPS := $(shell python3 -c "import json; print(' '.join(c['property_id'] for c in json.load(open('MANIFEST.json'))['checks']))")

.PHONY: all theories model props clean FORCE
all: model props

$(COQ)/Makefile.coq: $(COQ)/_CoqProject
	cd $(COQ) && coq_makefile -f _CoqProject -o Makefile.coq 2>/dev/null

theories: $(COQ)/Makefile.coq
	@timeout 3500 $(MAKE) --no-print-directory -C $(COQ) -f Makefile.coq -j16 2>&1 | grep -v '^Warning\|^COQDEP\|^make\[' ; exit $${PIPESTATUS[0]}

# A property whose proofs do not build must not prevent the other checks from
# being set up: its own check reports the broken obligation.
props:
	@for p in $(PROPS); do $(MAKE) --no-print-directory prop-$$p || echo "proof step of $$p FAILED (reported by ./check $$p)"; done

# A property's proof step builds only the closure its statement file needs, so
# that a broken proof elsewhere does not take the other properties down.
prop-%: $(COQ)/Makefile.coq
	@cd $(COQ) && deps=$$(coqdep $(QFLAGS) Properties/$*.v 2>/dev/null | head -1 | tr ' ' '\n' | grep '^theories/.*\.vo$$\|^generated/.*\.vo$$' | tr '\n' ' '); \
	  timeout 3500 $(MAKE) --no-print-directory -f Makefile.coq -j16 $$deps 2>&1 | grep -v '^Warning\|^COQDEP\|^make\[\|Nothing to be done\|is up to date' ; exit $${PIPESTATUS[0]}
	@$(MAKE) --no-print-directory $(COQ)/Properties/$*.out

$(COQ)/Properties/%.out: $(COQ)/Properties/%.v $(THEORY_V)
	@cd $(COQ) && timeout 1800 coqc $(QFLAGS) Properties/$*.v > Properties/$*.out.tmp 2>&1 \
	  && mv Properties/$*.out.tmp Properties/$*.out \
	  || { cat Properties/$*.out.tmp; rm -f Properties/$*.out; exit 1; }

chk-%: prop-%
	@cd $(COQ) && timeout 2400 coqchk -o -silent $(QFLAGS) NGSProps.$* 2>&1 | tail -40

model: bin/ngsmodel

bin/ngsmodel: $(THEORY_V) $(COQ)/Extract.v ocaml/driver.ml
	@$(MAKE) --no-print-directory theories
	@mkdir -p ocaml/gen bin
	@cd ocaml/gen && timeout 900 coqc $(subst -Q ,-Q ../../$(COQ)/,$(QFLAGS)) ../../$(COQ)/Extract.v | grep -v '^$$' || true
	@cp ocaml/driver.ml ocaml/gen/ && cd ocaml/gen && \
	  ocamlfind ocamlopt -O3 -package zarith -linkpkg -w -a model.mli model.ml driver.ml -o ../../bin/ngsmodel.new && mv -f ../../bin/ngsmodel.new ../../bin/ngsmodel

clean:
	-find $(COQ) \( -name '*.vo' -o -name '*.vok' -o -name '*.vos' -o -name '*.glob' -o -name '.*.aux' -o -name '*.out' -o -name '*.out.tmp' \) -delete
	rm -rf ocaml/gen bin/ngsmodel $(COQ)/Makefile.coq $(COQ)/Makefile.coq.conf $(COQ)/.Makefile.coq.d
