#!/usr/bin/env python3
"""Regenerates /verif/MANIFEST.json from the table below (claimed properties)
and properties.jsonl (everything else goes to not_applicable with a reason)."""
import json, os
V = os.path.dirname(os.path.dirname(os.path.abspath(__file__)))
TECH = ("Coq proof over a hand-written Gallina model; model tied to /repo on every run by differential "
        "execution of the extracted model against the live Python implementation (correspondence) plus an "
        "oracle applied to the implementation's output")
NOTE_COMMON = ("Trusted: Coq 8.16.1 kernel (vm_compute used, no native_compute); the hand-written model "
               "(tied by the correspondence run, bounded by its generators); extraction (ExtrOcamlBasic), "
               "OCaml driver, zarith for number I/O; the Python harness. ")
CLAIMS = {
 "C09": {
  "text": "Theorems for all grids/positions/bit triples: the uint64 loop equals the specification's compressed Morton code when the total bit count fits 64 (C09_cmc_is_spec), codes are below 2^(total bits) and injective on the grid via an explicit inverse (C09_uncmc_cmc, C09_cmc_injective, C09_ids_distinct), get_cmc accepts exactly on-lattice in-grid origins (C09_get_cmc_total_spec), shard/minishard numbers equal the specification for ALL bit counts incl. sums beyond 64 (C09_routing_is_spec), file names (C09_shard_name_is_spec). All closed under the global context. Correspondence on ~14k (quick) cases per run: exhaustive small grids with off-grid positions, random grids up to 2^21 per axis, 216+300 bit triples.",
  "note": "math.ceil(math.log2(n)) = bit length is tested, not proved; NumPy shift semantics >= 64 modelled from observation and re-checked each run.",
  "ref": "DESIGN.md §8 C09"},
 "C03": {
  "text": "Theorems: validate_chunk_coords accepts exactly the positions of the dataset's chunk grid (C03_validate_iff, both directions, any sizes/chunk sizes), off-grid positions are rejected by write and read with nothing stored (C03_offgrid_rejected), and for EVERY sequence of writes/reads over any scales a read returns the last successfully written chunk of that (scale, position) or a data-access error if none (C03_io_refinement, by induction over the operation list, parametric in a codec satisfying the round-trip law that C02 proves for raw and compressed_segmentation). Correspondence: 4000 coordinate tuples from a mutation grammar, 600 get_encoder infos, 120 write/read interleavings over memory and file accessors with a fresh-handle re-read under another configuration.",
  "note": "The accessor is an abstract store in the theorem (the file/sharded accessors are C12/C05); JPEG: only shape/dtype and a loose error bound are tested (libjpeg outside the model).",
  "ref": "DESIGN.md §8 C03"},
 "C20": {
  "text": "Theorems: readable_count output is at most 6 characters below 2^60 (C20_readable_len), exact below 1000 (C20_readable_small_exact), and from 1000 to 2^60 parses back to a value with at least two significant digits within half a unit of the last displayed digit of float(count) (C20_readable_two_digits_and_close, for ALL counts; float(count) error bound C20_float_of_count); the chunk grid walked by the converters has exactly the reported number of chunks, its chunks partition the volume and their voxel counts add up to the volume, and the reported size is voxels x itemsize x channels (C20_chunk_count, C20_chunk_cover_unique, C20_chunk_voxels_total, C20_size_bytes). Correspondence: ~30k counts per run (windows around every prefix boundary, 9.95x, 999.5x, 2^53+), 150 infos through show_scales_info, 5 really converted pyramids (files counted, chunks decoded).",
  "note": "format(x, '.0f'/'.1f') is modelled as exact half-to-even decimal rounding of the binary value (what CPython implements); np.prod int64 wrap-around is modelled and the theorems assume < 2^63.",
  "ref": "DESIGN.md §8 C20"},
}
def main():
    props = [json.loads(l) for l in open(os.path.join(V, "properties.jsonl"))]
    old = json.load(open(os.path.join(V, "MANIFEST.json")))
    checks = []
    for p in props:
        pid = p["id"]
        if pid not in CLAIMS: continue
        c = CLAIMS[pid]
        checks.append({
         "property_id": pid,
         "quick_cmd": f"./check {pid} --tier quick",
         "thorough_cmd": f"./check {pid} --tier thorough",
         "evidence_file": f"/verif/evidence/{pid}.json",
         "replay_cmd_template": f"./check {pid} --replay {{path}}",
         "engine": "coq-model+correspondence",
         "technique": c.get("technique", TECH),
         "level_claimed": {"category": "proof", "text": c["text"], "design_ref": c["ref"]},
         "level_note": NOTE_COMMON + c["note"],
        })
    old["checks"] = checks
    old["engines"] = [{"name": "coq-model+correspondence", "path": "/verif/coq, /verif/harness",
                       "serves_properties": [c["property_id"] for c in checks],
                       "kind_free_text": "Coq 8.16.1 development (model, specification, theorems) + extracted OCaml oracle + Python differential harness"}]
    old["not_applicable"] = [{"property_id": p["id"], "reason": "not claimed yet: machinery for this property is still being built (see DESIGN.md §8)"}
                             for p in props if p["id"] not in CLAIMS]
    json.dump(old, open(os.path.join(V, "MANIFEST.json"), "w"), indent=1)
if __name__ == "__main__":
    main()
