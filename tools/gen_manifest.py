#!/usr/bin/env python3
"""Regenerates /verif/MANIFEST.json from the table below (claimed properties)
and properties.jsonl (everything else goes to not_applicable with a reason)."""
import json, os
V = os.path.dirname(os.path.dirname(os.path.abspath(__file__)))
TECH = ("Coq proof over a hand-written Gallina model; model tied to /repo on every run by differential "
        "execution of the extracted model against the live Python implementation (correspondence) plus an "
        "oracle applied to the implementation's output")
NOTE_COMMON = ("Trusted: Coq 8.16.1 kernel (vm_compute used, no native_compute); the hand-written model "
               "(tied by the correspondence run, bounded by its generators); extraction (ExtrOcamlBasic), "
               "OCaml driver, zarith for number I/O; the Python harness. ")
CLAIMS = {
 "C09": {
  "text": "Theorems for all grids/positions/bit triples: the uint64 loop equals the specification's compressed Morton code when the total bit count fits 64 (C09_cmc_is_spec), codes are below 2^(total bits) and injective on the grid via an explicit inverse (C09_uncmc_cmc, C09_cmc_injective, C09_ids_distinct), get_cmc accepts exactly on-lattice in-grid origins (C09_get_cmc_total_spec), shard/minishard numbers equal the specification for ALL bit counts incl. sums beyond 64 (C09_routing_is_spec), file names (C09_shard_name_is_spec). All closed under the global context. Correspondence on ~14k (quick) cases per run: exhaustive small grids with off-grid positions, random grids up to 2^21 per axis, 216+300 bit triples.",
  "note": "math.ceil(math.log2(n)) = bit length is tested, not proved; NumPy shift semantics >= 64 modelled from observation and re-checked each run.",
  "ref": "DESIGN.md §8 C09"},
 "C03": {
  "text": "Theorems: validate_chunk_coords accepts exactly the positions of the dataset's chunk grid (C03_validate_iff, both directions, any sizes/chunk sizes), off-grid positions are rejected by write and read with nothing stored (C03_offgrid_rejected), and for EVERY sequence of writes/reads over any scales a read returns the last successfully written chunk of that (scale, position) or a data-access error if none (C03_io_refinement, by induction over the operation list, parametric in a codec satisfying the round-trip law that C02 proves for raw and compressed_segmentation). Correspondence: 4000 coordinate tuples from a mutation grammar, 600 get_encoder infos, 120 write/read interleavings over memory and file accessors with a fresh-handle re-read under another configuration.",
  "note": "The accessor is an abstract store in the theorem (the file/sharded accessors are C12/C05); JPEG: only shape/dtype and a loose error bound are tested (libjpeg outside the model).",
  "ref": "DESIGN.md §8 C03"},
 "C20": {
  "text": "Theorems: readable_count output is at most 6 characters below 2^60 (C20_readable_len), exact below 1000 (C20_readable_small_exact), and from 1000 to 2^60 parses back to a value with at least two significant digits within half a unit of the last displayed digit of float(count) (C20_readable_two_digits_and_close, for ALL counts; float(count) error bound C20_float_of_count); the chunk grid walked by the converters has exactly the reported number of chunks, its chunks partition the volume and their voxel counts add up to the volume, and the reported size is voxels x itemsize x channels (C20_chunk_count, C20_chunk_cover_unique, C20_chunk_voxels_total, C20_size_bytes). Correspondence: ~30k counts per run (windows around every prefix boundary, 9.95x, 999.5x, 2^53+), 150 infos through show_scales_info, 5 really converted pyramids (files counted, chunks decoded).",
  "note": "format(x, '.0f'/'.1f') is modelled as exact half-to-even decimal rounding of the binary value (what CPython implements); np.prod int64 wrap-around is modelled and the theorems assume < 2^63.",
  "ref": "DESIGN.md §8 C20"},
 "C01": {
  "text": "Theorem C01_convert_pointwise: for ALL volume sizes, chunk sizes (dividing the size or not, larger than the volume, 1), channel counts: after the conversion loop, for every voxel (x,y,z) and channel, the chunk of the grid holding it reads back and, indexed in (C,Z,Y,X) order, yields f(vol x y z c) where f is the element-wise value mapping (C11) — composed from the tiling model of volume_to_precomputed, the I/O refinement of C03 and a codec round-trip hypothesis (C02); C01_all_writes_valid / C01_grid_count: every write is on the grid, one per cell. End-to-end on every run: 90 (quick) synthetic NIfTI files (3-D/4-D/RGB, 10 on-disk dtypes, header scaling, --ignore-scaling, --mmap, --input-min/max, target types, chunk sizes 1..8, raw/compressed_segmentation, deep/flat x gzip x sharded) through the real commands, scale 0 reassembled through a fresh accessor and compared voxel by voxel with an exact-rational expectation; the sequence and contents of write_chunk calls are compared with the model's convert_ops.",
  "note": "nibabel's file parsing and scaling arithmetic are trusted inputs (the expectation starts from the nibabel array); --input-min/max scaling is compared with a tolerance of one unit in the last place of the work type; values inside the C11 known-finding regions (64-bit integers above 2^52, float->uint64 top) are kept out of the generator.",
  "ref": "DESIGN.md §8 C01"},
 "C13": {
  "text": "Theorems over the model of convert_chunks (scales reversed, destination grid in np.ndindex order, read-transform-write, abort on first failure): C13_source_never_written (the event trace contains no store on the source handle, for every run), C13_convert_pointwise (on success EVERY chunk of EVERY destination scale reads back as the element-wise conversion of the same source chunk — any number of scales, per-scale chunk sizes), C13_grid_same_chunks. End-to-end on every run: 24 sources x 2 destinations produced by the real pipeline (multi-scale, 5 dtypes, 1..3 channels; other encoding/layout/gzip/sharding; wider or narrower dtype; --copy-info; HTTP source over loopback), both trees decoded and compared with an exact-rational conversion reference, SHA-256 of the source tree before/after, order of read_chunk/write_chunk calls compared with the model.",
  "note": "f (C11), codec round trip (C02), decoder shape (C10) are hypotheses of the theorem discharged by those properties' theorems; the stores are the abstract ones of C03.",
  "ref": "DESIGN.md §8 C13"},
 "C19": {
  "text": "Theorems: C19_all_in_one_eq_steps (the all-in-one command is the same composition of library steps as the documented sequence, equal as soon as a re-opened dataset returns the stored info — the only difference between the two is the re-reading of the info), C19_write_volume_repeatable (running the volume-writing loop twice leaves every valid position reading the same chunk as running it once, for all volumes/chunk sizes, without assuming the writes succeed); exit-status-0 completeness is C13_convert_pointwise / C01_convert_pointwise. The weight of this check is the end-to-end run: 10 (quick) / 300 (thorough) workflows as real subprocesses — all-in-one vs step-by-step (info JSON and decoded voxels at every scale equal), repeated data-writing steps, convert-chunks --copy-info twice, scale-stats interleaved, completeness after exit 0.",
  "note": "The command-level theorem is over abstract library steps (their own correctness is C08/C01/C06); the correspondence for C19 is oracle-only (the two real pipelines against each other and against decoding), not model-vs-implementation. The all-in-one command has no --sharding option, so sharded datasets exercise only the step-by-step half. uint64 averaging (C07 finding) is kept out of the generator.",
  "ref": "DESIGN.md §8 C19"},
 "C11": {
  "text": "Theorems over the model of get_chunk_dtype_transformer (NumPy promote/can_cast tables tied exhaustively on every run): C11_int_to_int_exact (every integer pair, every value: result = clamp), C11_float_to_int_nearest (every finite float32/float64 to every unsigned target: nearest, half-to-even, saturating — through Flocq), C11_to_float32_nearest (round-to-nearest-even or +-inf), C11_preserve_input_kept, C11_result_mode_independent, C11_input_after_char (exactly when the caller's buffer is overwritten); C11_float32_overflow_refuted with its guard for the one remaining deviation (finite float64 beyond the float32 range becomes +-inf). Correspondence: all 50 dtype pairs x 2 buffer modes x 6 memory layouts, values at every type limit +-1, 2^k+-1, half-integers, subnormals; bit-exact comparison; oracle = extracted nearest_sat + an independent Fraction restatement.",
  "note": "IEEE arithmetic is Coq's SpecFloat (executable) related to Flocq 4.1.0 for the real-number statements: theorems through Flocq depend on the standard-library axioms ClassicalDedekindReals.sig_not_dec, sig_forall_dec, FunctionalExtensionality.functional_extensionality_dep, Classical_Prop.classic. C casts of NaN/inf/out-of-range floats are modelled from observation (x86-64).",
  "ref": "DESIGN.md §8 C11"},
 "C07": {
  "text": "Theorems: striding and majority equal their specification for any factors >= 1 and any shape (C07_stride_spec, C07_majority_spec, C07_majority_unique/oracle), shapes are ceil(size/factor) and unsupported factors are refused; averaging on uint8/uint16/uint32 equals the exact mean of the padded block rounded half-to-even for ALL values (C07_avg_exact: every float64 intermediate is exact — via Flocq), extends to uint64 below 2^49 (C07_avg_exact_on_guard), results stay within the contributors' bounds and never wrap (C07_avg_bounds, C07_avg_uint64_top_saturates); the remaining deviations are stated with witnesses: C07_avg_uint64_refuted (float64 precision above 2^53) and C07_avg_float32_refuted (double rounding). Correspondence: shapes 1..9 (+ long axes), C 1..3, all 8 factor triples x 5 dtypes x 5 outside values, factors 1..4 for stride/majority, unsupported factors; bit-exact.",
  "note": "Same Flocq axioms as C11 for the averaging theorems; outside values must lie on the fixed-point grid stated in C07_avg_exact (covers 0, 1.5, 255, -3).",
  "ref": "DESIGN.md §8 C07"},
 "C15": {
  "text": "Theorems: each of the 48 orientation codes in the tables (regenerated from the live package on every run and compared with the committed coq/generated/Tables.v; a changed table re-runs the proofs) denotes a signed permutation with the documented letter meanings (C15_tables_signed_perm, C15_tables_complete), invert_permutation inverts (C15_invert_permutation), and C15_orientation_pointwise: for ALL sizes, chunk sizes, channel counts and all 48 codes (forward and reversed slice axes) the run succeeds, every output voxel reads the pixel the code designates, every voxel lies in a written chunk and the chunk count equals the grid; C15_group_selection (Python slice semantics of every slice group incl. the last). Correspondence/end-to-end: all 48 codes x 5 slice-count/depth relations x chunk sizes 1..5 x PNG/TIFF grey/RGB x storage options through the real command, scale 0 reassembled and compared with an independent index map.",
  "note": "scikit-image/Pillow reading of slice files is the oracle input; the pixel value conversion is C11's.",
  "ref": "DESIGN.md §8 C15"},
 "C16": {
  "text": "Theorems: C16_half_voxel over any field (every affine, every non-zero voxel-size triple, every voxel index: the written matrix maps the corner-based centre coordinate (i+1/2) o (k s) to k (A i + t); rotations, shears, flips included) with the executable instance over Q; C16_nifti_to_ng_contract; C16_info_fields_spec (size, channels, resolution = voxel size x 10^6, for 3-D/4-D/RGB), C16_dtype_guess_holds; sharding option acceptance; C16_compact_json_partial (URL form splits back into the entry texts, integer entries print as integers — the float repr round trip is external and tested). End-to-end: 2000 random affines/shapes/dtypes through the real --generate-info, files parsed and the relation checked in exact rational arithmetic with relative tolerance 2^-40.",
  "note": "Float rounding inside NumPy/nibabel (voxel_sizes uses sqrt) is outside the proof: partial, checked with tolerance.",
  "ref": "DESIGN.md §8 C16"},
 "C17": {
  "text": "Theorems: C17_mesh_roundtrip / write_mesh_roundtrip / layout_spec (the file is the unique byte string the format reader maps to (vertices, triangles); length 4+12nv+12nt), C17_reader_total for ALL byte strings (the reader returns what the format says or the mesh error, never another exception: C17_reader_never_crashes, short header and index >= count rejected), orientation identities over any commutative ring (det of transformed triangle = det R x det, winding flipped exactly when mirroring, mm->nm), C17_vtk_parses_on_guard (the writer's output is accepted by the subset grammar and parses back to the exported mesh), C17_links_exact. Correspondence: meshes empty..300 triangles x 11 dtypes, byte strings from a mutation grammar (truncation at every boundary +-1, index edits n-1/n/n+1/2^32-1), affines det>0/<0/tiny, GIfTI files through the real command, VTK parsed by an independent parser, link tables with 0..13 fragments.",
  "note": "The header-window length of Neuroglancer's VTK parser is not modelled (not confirmable offline); float evaluation of a determinant near zero is outside the proof.",
  "ref": "DESIGN.md §8 C17"},
 "C06": {
  "text": "Theorems over the faithful pointwise model of compute_dyadic_downscaling (factors inferred from sizes, half chunk, fetch factor, the eight octant assignments with NumPy slicing clamps and assignment broadcasting, np.empty cells as explicit Uninit, every error outcome): C06_tiling_sound (for EVERY geometry with positive sizes: a transition that does not raise wrote, in every chunk, the restriction of the downscaling of the whole previous level — no guard), C06_no_uninit, C06_ok_iff_compat (no error coincides with an executable compatibility predicate), C06_tiling_exact, locality of striding / exact integer averaging with edge padding / majority (C06_local_*), the level loop (C06_pyramid_sound: raises, or every level is the previous one downscaled once) and C06_generated_pairs (every pyramid the scale generator can produce is exact or fails with an error). Correspondence per run: 1500 hand-made (old chunk, new chunk, factor) transitions on both sides of compat through the real function with an in-memory reader/writer, 220 whole pyramids in memory, 36 through the real accessors (deep/flat, gzip, sharded; raw and compressed_segmentation), each twice with np.empty poisoned 0x00/0xFF; every scale compared with the model and with an independent whole-level reference.",
  "note": "The downscaler is a parameter of the tiling theorems with a locality hypothesis proved for striding, integer averaging with edge padding and majority; averaging with an outside value, float32 data and uint64 averaging are outside the compared domain (C07's).",
  "ref": "DESIGN.md §8 C06"},
 "C08": {
  "text": "Theorems over the model of fill_scales_for_dyadic_pyramid (integer core parameterised by delays/target/sizes/max_scales; delays, units and keys on binary64 via SpecFloat): C08_sizes_spec, C08_levels_are_0_to_count, C08_chunks_pow2_and_volume (power-of-two chunk sizes, |sum of exponents - 3t| <= 1), C08_no_assertion_can_fail, C08_factors_1_or_2, C08_later_start, C08_round_log2_spec/unique (exact: sqrt 2 irrational), C08_last_fits_iff (exact executable characterisation of when the last scale fits two target chunks) with C08_last_fits_on_guard / C08_last_fits_refuted, C08_keys_distinct_on_guard, C08_generated_scales_positive; the remaining deviations with witnesses: level count for delayed axes, resolutions below half a picometre, generated chunk-size pairs that compute_dyadic_downscaling rejects (C08_accepted_by_pyramid_refuted). Correspondence per run: ~9600 descriptions (sizes 1..10^9, integer and fractional resolutions, targets 1..256, max_scales, types/encodings, generate-scales-info on files) compared field by field; oracle = each clause of the statement evaluated on the implementation's output.",
  "note": "math.log2/round and float repr are modelled by their mathematical definition (libm agreement tested each run); exactness of the binary64 multiplication by 2^k in resolution_spec is tested, not proved (resolution_spec_partial); keys_guard (exact doubling of the unit-scaled product) is checked on every generated description.",
  "ref": "DESIGN.md §8 C08"},
}
def main():
    props = [json.loads(l) for l in open(os.path.join(V, "properties.jsonl"))]
    old = json.load(open(os.path.join(V, "MANIFEST.json")))
    checks = []
    for p in props:
        pid = p["id"]
        if pid not in CLAIMS: continue
        c = CLAIMS[pid]
        checks.append({
         "property_id": pid,
         "quick_cmd": f"./check {pid} --tier quick",
         "thorough_cmd": f"./check {pid} --tier thorough",
         "evidence_file": f"/verif/evidence/{pid}.json",
         "replay_cmd_template": f"./check {pid} --replay {{path}}",
         "engine": "coq-model+correspondence",
         "technique": c.get("technique", TECH),
         "level_claimed": {"category": "proof", "text": c["text"], "design_ref": c["ref"]},
         "level_note": NOTE_COMMON + c["note"],
        })
    old["checks"] = checks
    old["engines"] = [{"name": "coq-model+correspondence", "path": "/verif/coq, /verif/harness",
                       "serves_properties": [c["property_id"] for c in checks],
                       "kind_free_text": "Coq 8.16.1 development (model, specification, theorems) + extracted OCaml oracle + Python differential harness"}]
    old["not_applicable"] = [{"property_id": p["id"], "reason": "not claimed yet: machinery for this property is still being built (see DESIGN.md §8)"}
                             for p in props if p["id"] not in CLAIMS]
    json.dump(old, open(os.path.join(V, "MANIFEST.json"), "w"), indent=1)
if __name__ == "__main__":
    main()
