#!/usr/bin/env python3
"""Prints a markdown table of /verif/seeded/*/meta.json (which checks catch which seeded change)."""
import json, glob, os
V = os.path.dirname(os.path.dirname(os.path.abspath(__file__)))
rows = []
for f in sorted(glob.glob(os.path.join(V, "seeded", "*", "meta.json"))):
    m = json.load(open(f))
    n = m.get("notes") or {}
    det = []
    for c, v in (m.get("detected_by") or {}).items():
        line = v.get("violation_line")
        det.append(f"{c}: " + ("caught" + (" (no-failing-input-found)" if line and "no-failing-input-found" in line else "") if line else "missed"))
    what = (n.get("what_changed") or "")[:160].replace("|", "/").replace("\n", " ")
    needs = (n.get("needs_to_manifest") or "")[:140].replace("|", "/").replace("\n", " ")
    rows.append(f"| {m['name']} | {m['property']} | {what} | {needs} | {'; '.join(det)} |")
print("| seeded change | property | what was changed | needs to manifest | checks |")
print("|---|---|---|---|---|")
print("\n".join(rows))
