#!/bin/bash
# tools/mkmodel.sh D_FOO d_foo OUT
# Builds a private model binary OUT whose dispatch is the single fragment
# NGS.D_FOO.d_foo (for developing one cluster without touching Dispatch.v).
# Requires the fragment's .vo (and its dependencies) to be compiled already:
#   cd /verif/coq && coqc -Q theories NGS theories/Run/D_FOO.v
set -e
MOD=$1; FN=$2; OUT=$(readlink -f "$3")
W=$(mktemp -d /tmp/mkmodel.XXXXXX)
trap 'rm -rf "$W"' EXIT
cat > "$W/X.v" <<EOV
From Coq Require Import Extraction ExtrOcamlBasic String.
From NGS Require Import Val $MOD.
Definition dispatch (op : string) (a : val) : val :=
  match $FN op a with Some v => v | None => VT "unknown-op" end.
Extraction Language OCaml.
Extraction "model.ml" dispatch.
EOV
cd "$W"
coqc -Q /verif/coq/theories NGS -Q /verif/coq/generated NGSGen X.v > /dev/null
cp /verif/ocaml/driver.ml .
ocamlfind ocamlopt -O3 -package zarith -linkpkg -w -a model.mli model.ml driver.ml -o "$OUT"
echo "built $OUT"
