#!/usr/bin/env python3
"""Validate MANIFEST.json and evidence/*.json against the schemas (run with python3-vt)."""
import json, sys, glob, os
import jsonschema
V = os.path.dirname(os.path.dirname(os.path.abspath(__file__)))
ms = json.load(open("/root/.vp/MANIFEST.schema.json"))
es = json.load(open("/root/.vp/EVIDENCE.schema.json"))
m = json.load(open(os.path.join(V, "MANIFEST.json")))
jsonschema.validate(m, ms)
ids = [c["property_id"] for c in m["checks"]]
na = [c["property_id"] for c in m.get("not_applicable", [])]
props = [json.loads(l)["id"] for l in open(os.path.join(V, "properties.jsonl"))]
print("manifest ok; claimed", ids, "not_applicable", na, "unlisted", [p for p in props if p not in ids + na])
for f in sorted(glob.glob(os.path.join(V, "evidence", "*.json"))):
    try:
        jsonschema.validate(json.load(open(f)), es)
        print("ok", os.path.basename(f))
    except jsonschema.ValidationError as e:
        pid = os.path.basename(f)[:-5]
        print("INVALID" if pid in ids else "invalid (not claimed)", f, e.message[:200])
        if pid in ids: sys.exit(1)
