#!/usr/bin/env python3
"""tools/seed_eval.py PID SRC_DIR NAME [--checks C01,C13] [--keep]

Confirms a seeded change (SRC_DIR/patch.diff + demo.py + notes.json) in a
scratch worktree of /repo (unit tests unchanged, demo passes without and fails
with the patch), runs the given checks (default: PID) against the patched
worktree through VERIF_REPO, and stores the change under /verif/seeded/NAME/
with meta.json when it is confirmed.  /repo itself is never modified.
"""
import argparse
import json
import os
import re
import shutil
import subprocess
import sys
import tempfile

V = os.path.dirname(os.path.dirname(os.path.abspath(__file__)))


def sh(cmd, cwd=None, env=None, timeout=3600):
    r = subprocess.run(cmd, shell=True, cwd=cwd, env=env, stdout=subprocess.PIPE, stderr=subprocess.STDOUT,
                       timeout=timeout)
    return r.returncode, r.stdout.decode(errors="replace")


def main():
    ap = argparse.ArgumentParser()
    ap.add_argument("pid")
    ap.add_argument("src")
    ap.add_argument("name")
    ap.add_argument("--checks")
    ap.add_argument("--tier", default="quick")
    a = ap.parse_args()
    checks = (a.checks or a.pid).split(",")
    wt = tempfile.mkdtemp(prefix="seed-wt-", dir="/tmp")
    os.rmdir(wt)
    scratch = tempfile.mkdtemp(prefix="seed-demo-", dir="/tmp")
    meta = {"property": a.pid, "name": a.name}
    try:
        rc, out = sh(f"git -C /repo worktree add -q {wt} HEAD")
        assert rc == 0, out
        env = dict(os.environ, PYTHONPATH=f"{wt}/src", PYTHONHASHSEED="0")
        demo = os.path.join(os.path.abspath(a.src), "demo.py")
        rc0, out0 = sh(f"/venv/bin/python {demo}", cwd=scratch, env=env, timeout=900)
        meta["demo_clean_rc"] = rc0
        rc, out = sh(f"git -C {wt} apply {os.path.abspath(a.src)}/patch.diff")
        meta["patch_applies"] = rc == 0
        if rc != 0:
            print("patch does not apply:", out)
        # PYTHONPATH: without it the editable install makes pytest import /repo/src instead of the patched worktree
        rc, out = sh("/venv/bin/python -m pytest -q -p no:cacheprovider unit_tests 2>&1 | tail -3", cwd=wt, env=env,
                     timeout=1800)
        m = re.search(r"(\d+) failed, (\d+) passed", out)
        meta["unit_tests"] = m.group(0) if m else out[-200:]
        tests_same = bool(m and m.group(1) == "2" and m.group(2) == "340")
        shutil.rmtree(scratch)
        os.makedirs(scratch)
        rc1, out1 = sh(f"/venv/bin/python {demo}", cwd=scratch, env=env, timeout=900)
        meta["demo_patched_rc"] = rc1
        meta["demo_patched_tail"] = out1[-300:]
        confirmed = meta["patch_applies"] and rc0 == 0 and rc1 != 0 and tests_same
        meta["confirmed"] = confirmed
        meta["detected_by"] = {}
        for c in checks:
            envc = dict(os.environ, VERIF_REPO=wt)
            rc, out = sh(f"./check {c} --tier {a.tier} --no-proof", cwd=V, env=envc, timeout=3600)  # harness part only: the proof step does not depend on /repo
            viol = [ln for ln in out.splitlines() if ln.startswith("VIOLATION")]
            meta["detected_by"][c] = {"rc": rc, "violation_line": viol[0] if viol else None,
                                      "summary": out.strip().splitlines()[-1][:300] if out.strip() else ""}
        # the check rewrote evidence files against the patched tree: restore them from git
        pass  # runs with VERIF_REPO write their evidence under evidence/.scratch
        try:
            meta["notes"] = json.load(open(os.path.join(a.src, "notes.json")))
        except Exception:  # noqa: BLE001
            try:        # re-evaluation of a stored change: the notes are inside its meta.json
                meta["notes"] = json.load(open(os.path.join(a.src, "meta.json")))["notes"]
            except Exception:  # noqa: BLE001
                meta["notes"] = None
        meta["ran"] = [f"demo.py on clean worktree (rc {rc0})", "git apply patch.diff", f"unit tests: {meta['unit_tests']}",
                       f"demo.py on patched worktree (rc {rc1})"] + [f"VERIF_REPO=<patched worktree> ./check {c} --tier {a.tier}"
                                                                    for c in checks]
        if confirmed:
            dst = os.path.join(V, "seeded", a.name)
            os.makedirs(dst, exist_ok=True)
            if os.path.realpath(a.src) != os.path.realpath(dst):
                shutil.copy(os.path.join(a.src, "patch.diff"), dst)
                shutil.copy(demo, dst)
            with open(os.path.join(dst, "meta.json"), "w") as f:
                json.dump(meta, f, indent=1)
        print(json.dumps(meta, indent=1))
    finally:
        sh(f"git -C /repo worktree remove --force {wt}")
        shutil.rmtree(scratch, ignore_errors=True)


if __name__ == "__main__":
    main()
