#!/usr/bin/env python3
"""tools/reeval_seeds.py [NAME-PREFIX ...]: re-runs tools/seed_eval.py for the changes stored under
seeded/ (all, or those whose name starts with one of the prefixes), with the checks recorded in
their meta.json, four at a time; prints one line per change and rewrites the meta.json files."""
import glob
import json
import os
import subprocess
import sys
from concurrent.futures import ThreadPoolExecutor

V = os.path.dirname(os.path.dirname(os.path.abspath(__file__)))
jobs = []
for f in sorted(glob.glob(os.path.join(V, "seeded", "*", "meta.json"))):
    m = json.load(open(f))
    if sys.argv[1:] and not any(m["name"].startswith(p) for p in sys.argv[1:]):
        continue
    jobs.append((m["property"], os.path.dirname(f), m["name"], ",".join(m.get("detected_by") or [m["property"]])))


def run(j):
    pid, d, name, checks = j
    r = subprocess.run(["python3", os.path.join(V, "tools", "seed_eval.py"), pid, d, name, "--checks", checks],
                       stdout=subprocess.PIPE, stderr=subprocess.STDOUT)
    t = r.stdout.decode()
    try:
        j = json.loads(t[t.index("{"):])
        return name, j["confirmed"], j["unit_tests"], {k: (v["violation_line"] or "MISSED")[:110]
                                                       for k, v in j["detected_by"].items()}
    except Exception:  # noqa: BLE001
        return name, "ERR", t[-300:]


with ThreadPoolExecutor(8) as ex:
    for res in ex.map(run, jobs):
        print(*res, flush=True)
