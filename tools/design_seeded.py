#!/usr/bin/env python3
"""Regenerates DESIGN.md section 12 from seeded/*/meta.json and seeded/HISTORY.json."""
import json, glob, os
V = os.path.dirname(os.path.dirname(os.path.abspath(__file__)))
hist = json.load(open(os.path.join(V, "seeded", "HISTORY.json")))
rows = []
stats = {"n": 0, "own": 0, "other": 0, "nfi": 0}
for f in sorted(glob.glob(os.path.join(V, "seeded", "*", "meta.json"))):
    m = json.load(open(f)); n = m.get("notes") or {}
    det = []
    own_caught = False; other = False
    for c, v in (m.get("detected_by") or {}).items():
        line = v.get("violation_line")
        if line:
            nfi = "no-failing-input-found" in line
            det.append(c + ": caught" + (" (no-failing-input-found)" if nfi else ""))
            if c == m["property"]: own_caught = True
            else: other = True
        else:
            det.append(c + ": missed")
    stats["n"] += 1; stats["own"] += own_caught; stats["other"] += (other and not own_caught)
    what = (n.get("what_changed") or "").replace("|", "/").replace("\n", " ")
    what = what[:150] + ("…" if len(what) > 150 else "")
    needs = (n.get("needs_to_manifest") or "").replace("|", "/").replace("\n", " ")
    needs = needs[:120] + ("…" if len(needs) > 120 else "")
    rows.append(f"| {m['name']} | {what} | {needs} | {'; '.join(det)} | {hist.get(m['name'], '')} |")
txt = f"""## 12. Seeded changes: which checks catch which

Each change below was written by a fresh sub-agent that was given only the text
of one property and its own scratch worktree of `/repo` (nothing from
`/verif`), with the request for a change that still passes the unit tests and
needs something specific to manifest. There were seven rounds (names without a
round tag, `-r2-` ... `-r7-`): each later round was told what the earlier
ones had produced and asked for other functions and code paths; the third was
steered towards silent wrong data behind unusual but legitimate combinations,
the fourth towards state that survives between calls or objects (caches,
reused buffers, in-place modification of caller arguments, second invocations,
error paths that swallow failures), the fifth towards breadth (refactorings,
NumPy/Python upgrades, the LAST chunk/slice/scale, integer widths, defaults),
the sixth was told to imagine a sampling checker and evade it (magnitudes
above 2^16/2^24/2^31, NaN and infinities, big-endian files, `python -O`, exit
without close, symlinks, glob characters, servers without HEAD), and the
seventh (all twenty properties, two changes each; the second and third batches were told to stay inside the code the property names) was told what that checker by now
includes and asked for two cooperating sites, histories of three or more
steps, exact magnitudes or counts and three-way option interactions. After the two
repairs of `/repo` made on the way (69c193f, 9262957) the older patches that
no longer applied were rebased by hand (`patch.orig.diff` kept beside the
rebased `patch.diff`). `tools/reeval_seeds.py` re-runs every stored change
against the current checks. Every
change was then confirmed here (`tools/seed_eval.py`): the patch applies to
`/repo` HEAD, the unit tests still give 340 passed / 2 failed, the author's
demonstration passes on the clean tree and fails on the patched one. It is kept
as `seeded/<name>/{{patch.diff, demo.py, meta.json}}`. The checks were run
against the patched worktree (`VERIF_REPO=<worktree> ./check Cxx --tier quick
--no-proof`, i.e. the harness part; the proof step does not depend on `/repo`);
`/repo` itself was never modified. "caught" = a `VIOLATION` line with a
concrete failing input; "(no-failing-input-found)" = the correspondence broke
but the oracle accepted everything the run produced. {stats['n']} changes:
{stats['own']} caught by the check of the property they were written against,
{stats['other']} caught only by the check of a neighbouring property (named in
the table), {stats['n'] - stats['own'] - stats['other']} not caught (C16-r6-m1: it only shows for a 3x4 matrix passed
directly to an internal helper, outside the property; see its history entry).
Two changes are caught in the thorough tier only (C02-r6-m3, C05-r6-m2: they
need 300 MB of data; `"tier_needed": "thorough"` in their meta.json), five
candidates were rejected because they break unit tests, and rates of first-shot
detection per round (before any strengthening) were roughly 70 % (rounds 1-3),
58 % (round 4, state across calls), 68 % (round 5, breadth) 25 % (round 6,
written to evade a sampling checker) and 14 of 39 (round 7: seven of the first
fifteen were written against a mechanism that belongs to a neighbouring property
and are caught there; the other first-shot misses led to the strengthenings
listed under `-r7-`): the strengthened generators are what
`seeded/HISTORY.json` lists. The last column records the changes that the first version of a
check missed and what was strengthened (`seeded/HISTORY.json`); the table shows
the state after the strengthening, and on the unchanged tree the strengthened
checks stay quiet.

| change | what was changed | needs to manifest | checks (final) | history |
|---|---|---|---|---|
""" + "\n".join(rows) + """

**Harmless rewrites.** As the counterpart, twelve behaviour-preserving
refactorings written by a sub-agent that saw nothing of `/verif`
(`seeded/harmless-refactors/`: helper extraction, loops turned into
comprehensions, the eight hand-unrolled octant copies of
`compute_dyadic_downscaling` folded into one loop, merged `struct.pack` calls in
`Shard.close`, `ceil_div` for open-coded expressions, …; 17 files, +253/−260
lines) were applied together to a scratch worktree: all 20 checks stayed quiet
(0 violations, 0 disagreements) - both after the second round and again at
the end of the build, after six rounds of strengthening and three more repairs
of `/repo` (one refactoring had to be rebased onto the repaired file accessor);
the twelve checks whose generators grew in the seventh round were run against
the refactored tree once more, with the same result.

"""
p = os.path.join(V, "DESIGN.md"); s = open(p).read()
marker = "## Appendix A — proof plans for the three largest developments"
a = s.index("## 12. Seeded changes"); b = s.index(marker)
open(p, "w").write(s[:a] + txt + s[b:])
print(stats)
