(* Driver for the extracted model: one request per line,  "<op> <value>",
   one reply per line.  Value syntax: decimal integers, xHEX byte strings,
   bare atoms, ( ... ) lists.  zarith is used only to read and print decimal
   numbers; all model arithmetic is the extracted Coq code. *)
module ZZ = Z
open Model

let rec pos_of_z (v : ZZ.t) : positive =
  if ZZ.equal v ZZ.one then XH
  else if ZZ.testbit v 0 then XI (pos_of_z (ZZ.shift_right v 1))
  else XO (pos_of_z (ZZ.shift_right v 1))

let coqz_of_z (v : ZZ.t) : z =
  if ZZ.sign v = 0 then Z0 else if ZZ.sign v > 0 then Zpos (pos_of_z v)
  else Zneg (pos_of_z (ZZ.neg v))

let rec z_of_pos (p : positive) : ZZ.t =
  match p with
  | XH -> ZZ.one
  | XO q -> ZZ.shift_left (z_of_pos q) 1
  | XI q -> ZZ.succ (ZZ.shift_left (z_of_pos q) 1)

let z_of_coqz = function Z0 -> ZZ.zero | Zpos p -> z_of_pos p | Zneg p -> ZZ.neg (z_of_pos p)

let n_of_int (i : int) : n = if i = 0 then N0 else Npos (pos_of_z (ZZ.of_int i))
let int_of_n = function N0 -> 0 | Npos p -> ZZ.to_int (z_of_pos p)

let ascii_of_char (c : char) : ascii =
  let k = Char.code c in
  let b i = (k lsr i) land 1 = 1 in
  Ascii (b 0, b 1, b 2, b 3, b 4, b 5, b 6, b 7)

let char_of_ascii (Ascii (a, b, c, d, e, f, g, h)) =
  let v x i = if x then 1 lsl i else 0 in
  Char.chr (v a 0 + v b 1 + v c 2 + v d 3 + v e 4 + v f 5 + v g 6 + v h 7)

let coqstr_of_string (s : Stdlib.String.t) : string =
  let r = ref EmptyString in
  for i = Stdlib.String.length s - 1 downto 0 do r := String (ascii_of_char s.[i], !r) done;
  !r

let string_of_coqstr (s : string) : Stdlib.String.t =
  let b = Buffer.create 16 in
  let rec go = function EmptyString -> () | String (c, r) -> Buffer.add_char b (char_of_ascii c); go r in
  go s; Buffer.contents b

(* ---- parser ---- *)
exception Parse of Stdlib.String.t

let hexval c =
  match c with
  | '0' .. '9' -> Char.code c - 48
  | 'a' .. 'f' -> Char.code c - 87
  | 'A' .. 'F' -> Char.code c - 55
  | _ -> raise (Parse "hex")

let parse_value (s : Stdlib.String.t) (start : int) : val0 * int =
  let len = Stdlib.String.length s in
  let rec skip i = if i < len && (s.[i] = ' ' || s.[i] = '\t') then skip (i + 1) else i in
  let tok_end i =
    let j = ref i in
    while !j < len && s.[!j] <> ' ' && s.[!j] <> '(' && s.[!j] <> ')' do incr j done;
    !j in
  let rec value i =
    let i = skip i in
    if i >= len then raise (Parse "eof")
    else if s.[i] = '(' then items (i + 1) []
    else begin
      let j = tok_end i in
      let t = Stdlib.String.sub s i (j - i) in
      let c = t.[0] in
      if c = 'x' then begin
        let nb = (Stdlib.String.length t - 1) / 2 in
        let r = ref [] in
        for k = nb - 1 downto 0 do
          r := n_of_int (hexval t.[1 + 2 * k] * 16 + hexval t.[2 + 2 * k]) :: !r
        done;
        (VS !r, j)
      end else if (c >= '0' && c <= '9') || c = '-' then (VZ (coqz_of_z (ZZ.of_string t)), j)
      else (VT (coqstr_of_string t), j)
    end
  and items i acc =
    let i = skip i in
    if i >= len then raise (Parse "unclosed")
    else if s.[i] = ')' then (VL (Stdlib.List.rev acc), i + 1)
    else let (v, j) = value i in items j (v :: acc)
  in
  value start

(* ---- printer ---- *)
let hexdig = "0123456789abcdef"
let rec print_value (b : Buffer.t) (v : val0) : unit =
  match v with
  | VZ z -> Buffer.add_string b (ZZ.to_string (z_of_coqz z))
  | VS l ->
      Buffer.add_char b 'x';
      Stdlib.List.iter (fun n -> let k = int_of_n n in
                          Buffer.add_char b hexdig.[(k lsr 4) land 15];
                          Buffer.add_char b hexdig.[k land 15]) l
  | VT t -> Buffer.add_string b (string_of_coqstr t)
  | VL l ->
      Buffer.add_char b '(';
      Stdlib.List.iteri (fun i x -> if i > 0 then Buffer.add_char b ' '; print_value b x) l;
      Buffer.add_char b ')'

let () =
  let b = Buffer.create 65536 in
  (try
     while true do
       let line = input_line stdin in
       Buffer.clear b;
       (try
          let i = try Stdlib.String.index line ' ' with Not_found -> Stdlib.String.length line in
          let op = Stdlib.String.sub line 0 i in
          let (arg, _) =
            if i >= Stdlib.String.length line then (VL [], 0) else parse_value line i in
          print_value b (dispatch (coqstr_of_string op) arg)
        with
        | Parse m -> Buffer.add_string b ("parse-error:" ^ m)
        | Stack_overflow -> Buffer.add_string b "stack-overflow"
        | Invalid_argument m -> Buffer.add_string b ("parse-error:" ^ m));
       print_string (Buffer.contents b);
       print_char '\n';
       flush stdout
     done
   with End_of_file -> ())
